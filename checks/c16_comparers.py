"""C16 - each built-in comparer accepts exactly its documented equivalence class.

Sub-domains (one part each): congruence, between, eigenvector, vector span, vector phase, MatrixEntryComparer,
LinearComparer (random + an exhaustive grid over mode subsets) and wrong-shape submissions under every mismatch
policy (exhaustive grid).  Membership is always decided by the comparer's defining residual *recomputed here* in
plain numpy and compared with the effective tolerance: member iff residual <= tol/100, non-member iff
residual >= 100*tol, discarded in between.
"""
import cmath
import itertools
import math
import os

import numpy as np
from hypothesis import strategies as st
from voluptuous import Schema, Required

from vlib.core import call_twice, Part, Violation, Discard, call
from vlib import forms

from mitxgraders import (FormulaGrader, NumericalGrader, MatrixGrader, LinearComparer, MatrixEntryComparer,
                         congruence_comparer, between_comparer, eigenvector_comparer, vector_span_comparer,
                         vector_phase_comparer)
from mitxgraders.sampling import VariableSamplingSet, set_seed
from mitxgraders.exceptions import MITxError, InputTypeError

RULE = ("Cases: per comparer a target written as full-precision literals (or formulas of scripted variables where "
        "samples must vary: congruence, MatrixEntryComparer, LinearComparer), a student submission built by the "
        "defining transformation (t+k*m; inside/at/outside closed bounds; c*v of P D P^-1; complex combinations of "
        "independent or redundant spanning sets; e^{i theta} v; entry subsets perturbed; expected = a*student+b) or "
        "pushed off the class by rho x tolerance along a controlled direction, a tolerance (absolute or "
        "percentage) and the partial-credit settings; plus exhaustive grids over LinearComparer mode subsets and "
        "over wrong shapes x comparer x answer_shape_mismatch x suppress_matrix_messages. Oracle: the defining "
        "residual recomputed in numpy: member iff residual <= tol/100 (must be accepted / matching), non-member iff "
        "residual >= 100*tol (must get no credit), otherwise discarded; expected credit computed from the "
        "member/non-member pattern. Non-trivial = transformation parameter non-trivial (k != 0, c != 1, theta != 0, "
        "(a,b) != (1,0)), or a non-member, or a partial-credit outcome, or a wrong shape; distinct by spec."
        " Structured targets (vectors with zero unconjugated square, imaginary, axis vectors; rotation eigenbases), rescalings far from 1, and MatrixEntryComparer objects first used by a grader of another tolerance.")
ASSUMPTIONS = [
    "a percentage tolerance is relative to 'the' reference value; where the statement leaves the reference open "
    "(target vs reduced target, student vs expected norm) the smallest candidate is used for members and the "
    "largest for non-members, so only cases decided under every reading are judged",
    "members/non-members keep a factor 100 from the tolerance; vectors that must count as nonzero have norm >= "
    "max(1e-6, 100 x an absolute tolerance); generated magnitudes below 1e-6 are snapped to 0",
    "numeric literals are parsed exactly (verified: repr(float) round-trips through the library parser)",
    "congruence and between are used with real scalars, the array comparers with vectors of length 2-4 and "
    "matrices up to 3x3 under MatrixGrader(max_array_dim=2); eigenvalue 0 only with absolute tolerances",
    "LinearComparer: real samples, at least 3 of them, scripted through a VariableSamplingSet subclass; a "
    "library-family error (MITxError) counts as 'no credit'",
    "the verdict compared is grade_decimal (and ok only for full-credit answers), cf. known defect #11 (C01)",
]
REQUIRED = {
    'congruence/member/k!=0': 60, 'congruence/nonmember': 60, 'congruence/wraparound-member': 10,
    'congruence/scripted-samples': 40,
    'between/at-bound': 40, 'between/inside': 30, 'between/outside': 40, 'between/nonreal': 10,
    'eigen/member/complex-scaling': 30, 'eigen/member/real-scaling': 30, 'eigen/nonmember/near': 30,
    'eigen/degenerate-eigenspace': 10, 'eigen/zero-vector': 5,
    'span/member/independent': 40, 'span/member/dependent-set': 30, 'span/nonmember/independent-set': 30,
    'span/nonmember/dependent-or-square-set': 15, 'span/zero-vector': 5,
    'phase/member/theta!=0': 40, 'phase/nonmember/rescaled': 20, 'phase/nonmember/out-of-span': 20,
    'entries/all': 30, 'entries/none': 30, 'entries/some/flat': 30, 'entries/some/proportional': 30,
    'entries/match-at-some-samples-only': 20,
    'linear/related/equals': 10, 'linear/related/proportional': 10, 'linear/related/offset': 10,
    'linear/related/linear': 10, 'linear/unrelated': 20, 'linear/zero-student': 20, 'linear/zero-expected': 20,
    'shape/wrong/raised': 100, 'shape/wrong/marked-wrong': 100, 'shape/wrong/suppressed': 100, 'shape/right': 50,
}

GRADE_EPS = 1e-9
ABS_TOLS = [1e-9, 1e-6, 1e-4, 1e-3]
PCT_TOLS = ['0.0001%', '0.01%', '0.1%', '0.5%']
RHOS = [250.0, 600.0, 3000.0, 1e5]


# --------------------------------------------------------------------------------------------------------
# helpers


class Scripted(VariableSamplingSet):
    """Sampling set that hands out the values chosen by the case, in order (cyclic)."""
    schema_config = Schema({Required('values'): list})

    def __init__(self, config=None, **kwargs):
        super(Scripted, self).__init__(config, **kwargs)
        self.i = 0

    def gen_sample(self):
        v = self.config['values'][self.i % len(self.config['values'])]
        self.i += 1
        return v


def num(x):
    """spec number -> python number ([re, im] means complex)."""
    if isinstance(x, (list, tuple)):
        return complex(float(x[0]), float(x[1]))
    return float(x)


def lit(z):
    if isinstance(z, (complex, np.complexfloating)):
        z = complex(z)
        return '(%r+%r*i)' % (z.real, z.imag)
    return '(%r)' % float(z)


def vlit(v):
    return '[' + ','.join(lit(x) for x in v) + ']'


def mlit(M):
    return '[' + ','.join(vlit(r) for r in M) + ']'


def arrlit(a):
    a = np.asarray(a)
    if a.ndim == 0:
        return lit(a.item())
    return '[' + ','.join(arrlit(x) for x in a) + ']'


def pct(tol):
    return float(tol.strip()[:-1]) * 0.01


def tol_bounds(tol, refs):
    """(lo, hi) effective tolerance: absolute -> (tol, tol); percentage -> p*min(refs), p*max(refs)."""
    if isinstance(tol, str):
        p = pct(tol)
        return p * min(refs), p * max(refs)
    return float(tol), float(tol)


def classify(res, lo, hi):
    """'in' (member), 'out' (non-member) or 'band' (too close to the tolerance to judge)."""
    if not (res == res) or math.isinf(res):
        return 'band'
    if res == 0 or res <= lo / 100.0:
        return 'in'
    if res >= 100.0 * hi:
        return 'out'
    return 'band'


# Development aid (unset in registered runs): VERIF_C16_MUTE=key1,key2 counts violations of these root-cause buckets
# as notes 'muted/<key>' instead of reporting them, so that generator statistics and the mutant self-test can be
# read while a genuine defect is still unrepaired and not yet listed in known_findings.json.
MUTED = set(k for k in os.environ.get('VERIF_C16_MUTE', '').split(',') if k)


def muting(judge):
    if not MUTED:
        return judge

    def wrapped(spec, rec):
        try:
            return judge(spec, rec)
        except Violation as v:
            if v.key in MUTED:
                rec.note('muted/' + v.key)
                return {'muted': v.key}
            raise
    return wrapped


def run(g, s, seed, rec):
    """-> (result dict | None, MITxError | None); anything else escapes (reported as uncaught/...)."""
    rec.calls(2)
    kind, val = call_twice(g, lambda: set_seed(seed), None, s)
    if kind == 'ok':
        return val, None
    if isinstance(val, MITxError):
        return None, val
    raise val


def short(out):
    res, exc = out
    if exc is not None:
        return {'raised': type(exc).__name__, 'msg': str(exc)[:120]}
    return {'ok': res['ok'], 'grade': res['grade_decimal'], 'msg': res['msg'][:80]}


def is_accept(out, cred=1):
    res, exc = out
    return exc is None and abs(res['grade_decimal'] - cred) <= GRADE_EPS and (cred != 1 or res['ok'] is True)


def is_reject(out):
    res, exc = out
    return exc is None and res['grade_decimal'] == 0 and res['ok'] is False


def demand_accept(fam, out, why, **extra):
    if not is_accept(out):
        raise Violation(fam + '/member-rejected', '%s: a member of the accepted class got %r' % (why, short(out)),
                        **extra)


def demand_reject(fam, out, why, key=None, **extra):
    res, exc = out
    if exc is not None:
        return  # a student-facing error is not an acceptance
    if not is_reject(out):
        raise Violation(key or (fam + '/nonmember-accepted'),
                        '%s: a non-member of the accepted class got %r' % (why, short(out)), **extra)


def unitary(R):
    Q, _ = np.linalg.qr(np.asarray(R))
    return Q


def nrm(v):
    return float(np.linalg.norm(v))


# --------------------------------------------------------------------------------------------------------
# strategies: building blocks


def fl(lo, hi):
    """floats in [lo, hi]; magnitudes below 1e-6 are snapped to 0 (no targets that only exercise underflow)."""
    base = st.floats(lo, hi, allow_nan=False, allow_infinity=False, allow_subnormal=False)
    if lo <= 0 <= hi:
        return base.map(lambda x: 0.0 if abs(x) < 1e-6 else x)
    return base


def real(lo, hi):
    return st.one_of(fl(lo, hi), st.integers(int(math.ceil(lo * 4)), int(math.floor(hi * 4))).map(lambda k: k / 4.0))


def number(cx, lo=-2.0, hi=2.0):
    if cx:
        return st.tuples(real(lo, hi), real(lo, hi)).map(list)
    return real(lo, hi)


def signed(lo, hi):
    """real with lo <= |x| <= hi."""
    return st.tuples(fl(lo, hi), st.sampled_from([1.0, -1.0])).map(lambda t: t[0] * t[1])


TOL = st.sampled_from(ABS_TOLS + PCT_TOLS)
ABSTOL = st.sampled_from(ABS_TOLS)
SEED = st.integers(0, 2 ** 31 - 1)
RHO = st.sampled_from(RHOS)


def vec(cx, n, lo=-2.0, hi=2.0):
    return st.lists(number(cx, lo, hi), min_size=n, max_size=n)


def mat(cx, r, c, lo=-1.0, hi=1.0):
    return st.lists(vec(cx, c, lo, hi), min_size=r, max_size=r)


def tri(cx, n):
    """upper triangular factor with a well-conditioned diagonal (spec: diag list, strict upper list)."""
    return st.fixed_dictionaries({'d': st.lists(signed(0.5, 2.0), min_size=n, max_size=n),
                                  'u': st.lists(number(cx, -1.0, 1.0), min_size=n * (n - 1) // 2,
                                                max_size=n * (n - 1) // 2)})


def build_tri(t, n):
    T = np.zeros((n, n), dtype=complex)
    it = iter(t['u'])
    for i in range(n):
        T[i, i] = t['d'][i]
        for j in range(i + 1, n):
            T[i, j] = num(next(it))
    return T


def realify(A):
    A = np.asarray(A)
    return A.real.copy() if np.all(A.imag == 0) else A


# --------------------------------------------------------------------------------------------------------
# congruence_comparer


@st.composite
def congruence_specs(draw):
    kind = draw(st.sampled_from(['member', 'member', 'near-member', 'non-far', 'non-near', 'wrap']))
    scripted = kind != 'wrap' and draw(st.integers(0, 3)) == 0
    n = draw(st.integers(2, 4)) if scripted else 1
    ms = [draw(signed(0.3, 8.0)) for _ in range(n)]
    if kind == 'wrap':
        ts = [draw(st.integers(-3, 3))]       # the target is this multiple of the modulus
        tol = draw(ABSTOL)
    else:
        ts = [draw(real(-4.0, 4.0)) for _ in range(n)]   # target = ts[i] * |m| : a few moduli around zero
        tol = draw(TOL)
    return {'kind': kind, 'scripted': scripted, 'm': ms, 'u': ts, 'k': draw(st.integers(-6, 6)), 'tol': tol,
            'rho': draw(RHO), 'frac': draw(fl(0.03, 0.5)), 'sign': draw(st.sampled_from([1, -1])),
            'eps': draw(st.sampled_from([0.0, 0.3, 0.9])), 'seed': draw(SEED)}


def cong_residual(s, t, m):
    d = math.fmod(s - t, m)
    return min(abs(d), abs(m) - abs(d))


def judge_congruence(spec, rec):
    kind, tol, k = spec['kind'], spec['tol'], spec['k']
    ms = [float(m) for m in spec['m']]
    if kind == 'wrap':
        ts = [float(spec['u'][0]) * ms[0]]
    else:
        ts = [float(u) * abs(m) for u, m in zip(spec['u'], ms)]
    # displacement off the class, fixed from the first sample
    t0, m0 = ts[0], ms[0]
    lo0, hi0 = tol_bounds(tol, [abs(t0 % m0), abs(t0), abs(m0)])
    if kind == 'member':
        d = 0.0
    elif kind == 'near-member':
        d = spec['sign'] * spec['eps'] * lo0 / 100.0
    elif kind == 'non-far':
        d = spec['sign'] * spec['frac'] * min(abs(m) for m in ms)
    elif kind == 'non-near':
        d = spec['sign'] * spec['rho'] * hi0
    else:  # wrap: just on the far side of a multiple of the modulus (reduces to ~|m| - d instead of ~0)
        d = -math.copysign(1.0, m0) * max(spec['eps'], 0.3) * lo0 / 100.0
    if spec['scripted']:
        student = 'x+(%d)*y+%s' % (k, lit(d))
        g = FormulaGrader(answers={'comparer': congruence_comparer, 'comparer_params': ['x', 'y']},
                          variables=['x', 'y'], samples=len(ts), tolerance=tol,
                          sample_from={'x': Scripted(values=ts), 'y': Scripted(values=ms)})
        rec.cls('congruence/scripted-samples')
    else:
        student = lit(ts[0] + k * ms[0] + d)
        g = NumericalGrader(answers={'comparer': congruence_comparer, 'comparer_params': [lit(ts[0]), lit(ms[0])]},
                            tolerance=tol)
    verdicts = []
    wrap_risk = False
    for t, m in zip(ts, ms):
        s = t + k * m + d
        res = cong_residual(s, t, m)
        lo, hi = tol_bounds(tol, [abs(t % m), abs(t)])
        hi = tol_bounds(tol, [abs(t), abs(m)])[1]
        v_ = classify(res, lo, hi)
        if v_ == 'in' and lo == 0 and not (k == 0 and d == 0):
            v_ = 'band'     # zero percentage tolerance: only the literally identical submission is decidable
        verdicts.append(v_)
        # are the two reduced values on opposite ends of [0, |m|) although the class distance is tiny?
        if abs(abs((s % m) - (t % m)) - abs(m)) <= 2 * hi + 1e-9 * abs(m):
            wrap_risk = True
    out = run(g, student, spec['seed'], rec)
    obs = {'student': student, 'verdicts': verdicts, 'got': short(out)}
    if all(v == 'in' for v in verdicts):
        if kind == 'wrap' or wrap_risk:
            rec.cls('congruence/wraparound-member')
            rec.nontrivial()
            if not is_accept(out):
                raise Violation('congruence/member-rejected-at-wraparound',
                                'target %r is congruent to ~0 mod %r and the submission %s lies within tolerance/100 '
                                '(%r) of the class, on the other side of a multiple of the modulus; got %r'
                                % (ts[0], ms[0], student, tol, short(out)))
            return obs
        rec.cls('congruence/member/k!=0' if k != 0 else 'congruence/member/k=0')
        rec.nontrivial(k != 0)
        demand_accept('congruence', out, 'target %r modulus %r k=%d tol=%r' % (ts, ms, k, tol))
    elif any(v == 'out' for v in verdicts):
        rec.cls('congruence/nonmember')
        rec.nontrivial()
        demand_reject('congruence', out, 'target %r modulus %r student %s tol=%r' % (ts, ms, student, tol))
    else:
        raise Discard('congruence: residual inside the guard band (or zero percentage tolerance)')
    return obs


# --------------------------------------------------------------------------------------------------------
# between_comparer


@st.composite
def between_specs(draw):
    kind = draw(st.sampled_from(['inside', 'inside', 'inside', 'at-start', 'at-stop', 'below', 'above', 'next-below',
                                 'next-above', 'nonreal', 'complex-typed-real']))
    return {'kind': kind, 'a': draw(real(-50.0, 50.0)),
            'w': draw(st.one_of(st.just(0.0), fl(1e-3, 20.0), fl(1e-3, 20.0), st.integers(1, 8).map(float))),
            'u': draw(st.one_of(fl(0.05, 0.95), st.integers(1, 7).map(lambda k: k / 8.0))), 'dist': draw(st.sampled_from([1e-12, 1e-6, 0.5, 30.0])),
            'im': draw(signed(1e-9, 3.0)), 'tol': draw(TOL), 'formula': draw(st.booleans()), 'seed': draw(SEED)}


def judge_between(spec, rec):
    kind = spec['kind']
    start = float(spec['a'])
    stop = start + float(spec['w'])
    if kind in ('inside', 'nonreal', 'complex-typed-real'):
        s = start + spec['u'] * (stop - start)
    elif kind == 'at-start':
        s = start
    elif kind == 'at-stop':
        s = stop
    elif kind == 'below':
        s = start - spec['dist'] * max(1.0, abs(start))
    elif kind == 'above':
        s = stop + spec['dist'] * max(1.0, abs(stop))
    elif kind == 'next-below':
        s = math.nextafter(start, -math.inf)
    else:
        s = math.nextafter(stop, math.inf)
    cls = FormulaGrader if spec['formula'] else NumericalGrader
    g = cls(answers={'comparer': between_comparer, 'comparer_params': [lit(start), lit(stop)]},
            tolerance=spec['tol'])
    inside = start <= s <= stop   # exact: literals round-trip exactly, the class has no tolerance
    if kind == 'nonreal':
        student = lit(complex(s, spec['im']))
        out = run(g, student, spec['seed'], rec)
        rec.cls('between/nonreal')
        rec.nontrivial()
        res, exc = out
        if exc is None and not is_reject(out):
            raise Violation('between/nonreal-accepted', 'non-real %s got %r for bounds [%r, %r]'
                            % (student, short(out), start, stop))
        if exc is not None and not isinstance(exc, InputTypeError):
            raise Violation('between/nonreal-wrong-error', 'non-real %s: the documented "Input must be real." '
                            'InputTypeError was expected, got %r' % (student, short(out)))
        return {'student': student, 'got': short(out)}
    if kind == 'complex-typed-real':
        student = lit(complex(s, 0.0))
        out = run(g, student, spec['seed'], rec)
        rec.cls('between/complex-typed-real')
        rec.nontrivial()
        if inside and not is_accept(out):
            raise Violation('between/real-valued-complex-not-accepted',
                            '%s is real (zero imaginary part) and lies in [%r, %r] but got %r'
                            % (student, start, stop, short(out)))
        return {'student': student, 'got': short(out)}
    student = lit(s)
    out = run(g, student, spec['seed'], rec)
    rec.nontrivial()
    if s == start or s == stop:
        rec.cls('between/at-bound')
    elif inside:
        rec.cls('between/inside')
    else:
        rec.cls('between/outside')
    if inside:
        if not is_accept(out):
            raise Violation('between/inside-rejected' if start < s < stop else 'between/bound-rejected',
                            '%r in closed [%r, %r] got %r' % (s, start, stop, short(out)))
    else:
        demand_reject('between', out, '%r outside [%r, %r]' % (s, start, stop), key='between/outside-accepted')
    return {'student': student, 'inside': inside, 'got': short(out)}


# --------------------------------------------------------------------------------------------------------
# eigenvector_comparer


@st.composite
def eigen_specs(draw):
    n = draw(st.integers(2, 3))
    cx = draw(st.booleans())
    tol = draw(TOL)
    zero_ok = not isinstance(tol, str)
    lam = st.one_of(signed(0.5, 3.0), number(draw(st.booleans()), -3.0, 3.0))
    D = [draw(lam) for _ in range(n)]
    shape = draw(st.sampled_from(['distinct', 'distinct', 'repeat', 'zero']))
    if shape == 'repeat':
        D[1] = D[0]
    if shape == 'zero' and zero_ok:
        D[draw(st.integers(0, n - 1))] = 0.0
    kind = draw(st.sampled_from(['member', 'member', 'near-member', 'non-near', 'non-near', 'non-random', 'zero']))
    ccx = draw(st.booleans())
    c = draw(st.one_of(st.just(1.0), st.tuples(signed(0.2, 3.0), real(-3.0, 3.0)).map(list) if ccx
                       else signed(0.2, 3.0),
                       st.tuples(signed(0.2, 3.0), signed(0.2, 3.0)).map(list),      # genuinely complex factors

                       # "under any rescaling of v": also by factors far from 1 (a seeded change took a small true
                       # eigenvector for the zero vector under percentage tolerances)
                       st.sampled_from([1e-4, -6e-5, 1e-3, 250.0, -4000.0, 2e-5])))
    return {'n': n, 'cx': cx, 'R': draw(mat(cx, n, n)), 'T': draw(tri(cx, n)), 'D': D, 'k': draw(st.integers(0, n - 1)),
            'c': c, 'mix': draw(vec(True, n)), 'kind': kind, 'rho': draw(RHO), 'eps': draw(st.sampled_from([0.3, 0.9])),
            'dir': draw(vec(cx, n)), 'tol': tol, 'seed': draw(SEED),
            # eigenbasis of a plane rotation: eigenvectors (1, +-i) with zero unconjugated square
            'special': draw(st.sampled_from([None, None, None, None, 'isotropic']))}


ROT_BASIS = {2: [[1, 1], [1j, -1j]], 3: [[1, 1, 0], [1j, -1j, 0], [0, 0, 1]],
             4: [[1, 1, 0, 0], [1j, -1j, 0, 0], [0, 0, 1, 1], [0, 0, 1j, -1j]]}


def judge_eigen(spec, rec):
    n, tol, kind, k = spec['n'], spec['tol'], spec['kind'], spec['k']
    R = np.array([[num(x) for x in row] for row in spec['R']], dtype=complex)
    P = unitary(R) @ build_tri(spec['T'], n)
    if spec.get('special') == 'isotropic' and n in ROT_BASIS:
        P = np.array(ROT_BASIS[n], dtype=complex)
        rec.cls('eigen/isotropic-eigenvectors')
    D = np.array([num(x) for x in spec['D']], dtype=complex)
    if np.linalg.cond(P) > 200:
        raise Discard('eigen: ill-conditioned eigenbasis')
    lam = D[k]
    if isinstance(tol, str) and abs(lam) < 0.05:
        raise Discard('eigen: eigenvalue ~0 with a percentage tolerance (excluded by the plan)')
    M = realify(P @ np.diag(D) @ np.linalg.inv(P))
    lam_l = lam.real if lam.imag == 0 else lam
    same = [j for j in range(n) if D[j] == lam]
    c = num(spec['c'])
    if len(same) > 1:
        v = sum((num(spec['mix'][j]) if j != k else 1.0) * P[:, j] for j in same)
    else:
        v = P[:, k]
    base = c * v
    dirv = np.array([num(x) for x in spec['dir']], dtype=complex)
    other = [j for j in range(n) if D[j] != lam]

    def resid(s):
        return nrm(M @ s - lam_l * s)

    if kind == 'zero':
        s = np.zeros(n)
    elif kind == 'member':
        s = base
    elif kind == 'non-random':
        s = dirv
    else:
        # push along a direction that is not in the eigenspace; size fixed through the residual it creates
        u = P[:, other[0]] if (other and nrm(dirv) < 1.0) else dirv
        gap = resid(u)
        if gap < 1e-3 * max(1e-300, nrm(u)):
            raise Discard('eigen: perturbation direction lies (nearly) in the eigenspace')
        lo, hi = tol_bounds(tol, [nrm(M @ base), nrm(lam_l * base)])
        size = (spec['rho'] * hi if kind == 'non-near' else spec['eps'] * lo / 100.0) / gap
        s = base + size * u
    s = realify(s)
    g = MatrixGrader(answers={'comparer': eigenvector_comparer, 'comparer_params': [mlit(M), lit(lam_l)]},
                     max_array_dim=2, tolerance=tol)
    student = vlit(s)
    out = run(g, student, spec['seed'], rec)
    obs = {'student': student, 'got': short(out)}
    if not np.any(s != 0):
        rec.cls('eigen/zero-vector')
        rec.nontrivial()
        demand_reject('eigen', out, 'zero vector', key='eigen/zero-vector-accepted')
        return obs
    if nrm(s) < (1e-6 if isinstance(tol, str) else max(1e-6, 100 * tol)):
        raise Discard('eigen: vector not safely nonzero under the tolerance')
    res = resid(s)
    lo, hi = tol_bounds(tol, [nrm(M @ s), nrm(lam_l * s)])
    v_ = classify(res, lo, hi)
    obs['residual'] = res
    rec.maximum('eigen/member residual over tolerance', res / lo if v_ == 'in' and lo > 0 else 0.0)
    why = 'M=%s lambda=%s tol=%r residual %.3g (tolerance %.3g..%.3g)' % (mlit(M), lit(lam_l), tol, res, lo, hi)
    if v_ == 'in':
        if len(same) > 1:
            rec.cls('eigen/degenerate-eigenspace')
        if isinstance(c, complex) and c.imag != 0:
            rec.cls('eigen/member/complex-scaling')
        elif c != 1:
            rec.cls('eigen/member/real-scaling')
        else:
            rec.cls('eigen/member/unscaled')
        rec.nontrivial(c != 1 or len(same) > 1)
        demand_accept('eigen', out, why)
    elif v_ == 'out':
        rec.cls('eigen/nonmember/near' if kind == 'non-near' else 'eigen/nonmember/far')
        rec.nontrivial()
        demand_reject('eigen', out, why)
    else:
        raise Discard('eigen: residual inside the guard band')
    return obs


# --------------------------------------------------------------------------------------------------------
# vector_span_comparer


@st.composite
def span_specs(draw):
    n = draw(st.integers(2, 4))
    m = draw(st.integers(1, 3))
    cx = draw(st.booleans())
    r0 = draw(st.integers(1, min(m, n)))
    combos = []
    for _ in range(m - r0):
        combos.append(draw(st.one_of(
            st.lists(real(-2.0, 2.0), min_size=r0, max_size=r0),                       # generic combination
            st.integers(0, r0 - 1).map(lambda i, r0=r0: [2.0 if j == i else 0.0 for j in range(r0)]),  # multiple
            st.just([0.0] * r0))))                                                    # the zero vector
    kind = draw(st.sampled_from(['member', 'member', 'near-member', 'non-near', 'non-near', 'non-random', 'zero']))
    return {'n': n, 'm': m, 'cx': cx, 'r0': r0, 'R': draw(mat(cx, n, n)), 'T': draw(tri(cx, r0)), 'combos': combos,
            'order': draw(st.permutations(list(range(m)))), 'coef': draw(vec(draw(st.booleans()), r0, -3.0, 3.0)),
            'kind': kind, 'rho': draw(RHO), 'eps': draw(st.sampled_from([0.3, 0.9])), 'dir': draw(vec(cx, n)),
            'tol': draw(TOL), 'seed': draw(SEED), 'special': draw(st.sampled_from([None, None, None, None, 'isotropic']))}


def judge_span(spec, rec):
    n, m, r0, tol, kind = spec['n'], spec['m'], spec['r0'], spec['tol'], spec['kind']
    R = np.array([[num(x) for x in row] for row in spec['R']], dtype=complex)
    B = unitary(R)[:, :r0] @ build_tri(spec['T'], r0)          # n x r0, independent columns
    if spec.get('special') == 'isotropic' and r0 >= 1:
        B = np.array(B)
        B[:, 0] = np.array(ISOTROPIC[n][spec['seed'] % len(ISOTROPIC[n])], dtype=complex)   # sum(b_k^2) = 0
        rec.cls('span/isotropic-spanning-vector')
    cols = [B[:, j] for j in range(r0)] + [B @ np.array(cb, dtype=complex) for cb in spec['combos']]
    cols = [realify(cols[i]) for i in spec['order']]
    A = np.array(cols, dtype=complex).T                          # n x m, as written into the problem
    sv = np.linalg.svd(A, compute_uv=False)
    if sv[0] == 0:
        raise Discard('span: all spanning vectors are zero')
    if any(1e-12 * sv[0] < x < 0.02 * sv[0] for x in sv):
        raise Discard('span: rank of the spanning set not clear-cut')
    rank = int(np.sum(sv >= 0.02 * sv[0]))
    U = np.linalg.svd(A, full_matrices=True)[0]
    Ur, Uo = U[:, :rank], U[:, rank:]

    def resid(s):
        return nrm(s - Ur @ (Ur.conj().T @ s))

    coef = np.array([num(x) for x in spec['coef']], dtype=complex)
    base = B @ coef
    dirv = np.array([num(x) for x in spec['dir']], dtype=complex)
    if kind == 'zero':
        s = np.zeros(n)
    elif kind == 'member':
        s = base
    elif kind == 'non-random':
        s = dirv
    else:
        if rank == n:
            s = base + dirv       # the span is everything: still a member
        else:
            o = Uo @ (Uo.conj().T @ dirv)
            if nrm(o) < 1e-6:
                o = Uo[:, 0]
            o = o / nrm(o)
            lo, hi = tol_bounds(tol, [nrm(base)])
            s = base + (spec['rho'] * hi * 1.02 if kind == 'non-near' else spec['eps'] * lo / 100.0) * o
    s = realify(s)
    g = MatrixGrader(answers={'comparer': vector_span_comparer, 'comparer_params': [vlit(c) for c in cols]},
                     max_array_dim=2, tolerance=tol)
    student = vlit(s)
    out = run(g, student, spec['seed'], rec)
    obs = {'vectors': [vlit(c) for c in cols], 'rank': rank, 'student': student, 'got': short(out)}
    deficient = rank < m or m >= n
    if not np.any(s != 0):
        rec.cls('span/zero-vector')
        rec.nontrivial()
        demand_reject('span', out, 'zero vector', key='span/zero-vector-accepted')
        return obs
    if nrm(s) < (1e-6 if isinstance(tol, str) else max(1e-6, 100 * tol)):
        raise Discard('span: vector not safely nonzero under the tolerance')
    res = resid(s)
    lo, hi = tol_bounds(tol, [nrm(s)])
    v_ = classify(res, lo, hi)
    obs['residual'] = res
    why = 'vectors %s (rank %d) tol=%r student %s residual %.3g (tolerance %.3g)' % (
        obs['vectors'], rank, tol, student, res, hi)
    if v_ == 'in':
        rec.cls('span/member/dependent-set' if rank < m else 'span/member/independent')
        if rank == n:
            rec.cls('span/member/spanning-set-fills-the-space')
        rec.nontrivial()
        demand_accept('span', out, why)
    elif v_ == 'out':
        rec.cls('span/nonmember/dependent-or-square-set' if deficient else 'span/nonmember/independent-set')
        rec.nontrivial()
        demand_reject('span', out, why,
                      key='span/rank-deficient-or-square-spanning-set' if deficient else 'span/nonmember-accepted')
    else:
        raise Discard('span: residual inside the guard band')
    return obs


# --------------------------------------------------------------------------------------------------------
# vector_phase_comparer


@st.composite
def phase_specs(draw):
    n = draw(st.integers(2, 4))
    cx = draw(st.booleans())
    kind = draw(st.sampled_from(['member', 'member', 'near-member', 'rescaled', 'rescaled', 'conjugated',
                                 'out-of-span', 'non-random', 'zero']))
    theta = draw(st.one_of(fl(-math.pi, math.pi), st.sampled_from([0.0, math.pi, math.pi / 2, -math.pi / 2])))
    return {'n': n, 'cx': cx, 'v': draw(vec(cx, n, -3.0, 3.0)), 'first': draw(signed(0.3, 3.0)), 'theta': theta,
            'kind': kind, 'rho': draw(RHO), 'eps': draw(st.sampled_from([0.3, 0.9])),
            'sign': draw(st.sampled_from([1, -1])), 'dir': draw(vec(True, n)), 'tol': draw(TOL), 'seed': draw(SEED),
            # structured targets a random draw never produces: complex vectors whose UNCONJUGATED square sum(t_k^2) is 0
            # ([1, i], [3, 4, 5i], [1+i, 1-i] - circular-polarisation / null vectors), purely imaginary ones, axis vectors
            'special': draw(st.sampled_from([None, None, None, 'isotropic', 'isotropic', 'imaginary', 'axis']))}


ISOTROPIC = {2: [[1, 1j], [1, -1j], [1 + 1j, 1 - 1j]], 3: [[3, 4, 5j], [1, 1j, 0], [0, 1, -1j]],
             4: [[1, 1j, 1, 1j], [1, 1j, 0, 0], [3, 4, 0, 5j]]}


def special_target(spec, v):
    sp = spec.get('special')
    if sp == 'isotropic':
        pool = ISOTROPIC[spec['n']]
        base = np.array(pool[spec['seed'] % len(pool)], dtype=complex)
        return base * (abs(v[0]) if abs(v[0]) >= 0.3 else 1.0)
    if sp == 'imaginary':
        return 1j * np.real(v) if np.linalg.norm(np.real(v)) > 0.3 else v
    if sp == 'axis':
        out = np.zeros(spec['n'], dtype=complex)
        out[spec['seed'] % spec['n']] = v[0]
        return out
    return v


def judge_phase(spec, rec):
    n, tol, kind = spec['n'], spec['tol'], spec['kind']
    v = np.array([num(x) for x in spec['v']], dtype=complex)
    if abs(v[0]) < 0.3:
        v[0] = spec['first']                                      # keeps the target away from the zero vector
    v = special_target(spec, v)
    if spec.get('special'):
        rec.cls('phase/target-' + spec['special'])
    v = realify(v)
    ph = cmath.exp(1j * spec['theta'])
    base = ph * v
    dirv = np.array([num(x) for x in spec['dir']], dtype=complex)
    lo, hi = tol_bounds(tol, [nrm(v)])
    if kind == 'zero':
        s = np.zeros(n)
    elif kind == 'member':
        s = base
    elif kind == 'near-member':
        s = base * (1 + spec['sign'] * spec['eps'] * lo / 100.0 / nrm(v))
    elif kind == 'rescaled':
        f = 1 + spec['sign'] * spec['rho'] * hi * 1.05 / nrm(v)
        if f <= 0.05:
            f = 1 + spec['rho'] * hi * 1.05 / nrm(v)
        s = base * f
    elif kind == 'conjugated':
        s = ph * np.conj(v)
    elif kind == 'out-of-span':
        o = dirv - v * (np.vdot(v, dirv) / np.vdot(v, v))
        if nrm(o) < 1e-6:
            raise Discard('phase: perturbation direction parallel to the target')
        o = o / nrm(o)
        d = spec['rho'] * hi * 1.05
        # rotate towards o keeping the magnitude: only the span test can reject it
        ang = min(math.pi / 2, 2 * math.asin(min(1.0, d / (2 * nrm(v)))))
        s = ph * (math.cos(ang) * v + math.sin(ang) * nrm(v) * o)
    else:
        s = dirv
    s = realify(s)
    g = MatrixGrader(answers={'comparer': vector_phase_comparer, 'comparer_params': [vlit(v)]},
                     max_array_dim=2, tolerance=tol)
    student = vlit(s)
    out = run(g, student, spec['seed'], rec)
    obs = {'target': vlit(v), 'student': student, 'got': short(out)}
    if not np.any(s != 0):
        rec.cls('phase/zero-vector')
        rec.nontrivial()
        demand_reject('phase', out, 'zero vector', key='phase/zero-vector-accepted')
        return obs
    if nrm(s) < (1e-6 if isinstance(tol, str) else max(1e-6, 100 * tol)):
        raise Discard('phase: vector not safely nonzero under the tolerance')
    ip = np.vdot(v, s)
    best = ip / abs(ip) if abs(ip) > 0 else 1.0
    res = nrm(s - best * v)                       # distance to the class {e^{i t} v}
    lo, hi = tol_bounds(tol, [nrm(v), nrm(s)])
    v_ = classify(res, lo, hi)
    obs['distance'] = res
    why = 'target %s student %s tol=%r distance to the class %.3g (tolerance %.3g..%.3g)' % (
        vlit(v), student, tol, res, lo, hi)
    if v_ == 'in':
        rec.cls('phase/member/theta!=0' if spec['theta'] != 0 else 'phase/member/theta=0')
        rec.nontrivial(spec['theta'] != 0)
        demand_accept('phase', out, why)
    elif v_ == 'out':
        span_res = nrm(s - v * (np.vdot(v, s) / np.vdot(v, v)))
        mag_res = abs(nrm(s) - nrm(v))
        if span_res <= lo / 100.0:
            rec.cls('phase/nonmember/rescaled')
        elif mag_res <= lo / 100.0:
            rec.cls('phase/nonmember/out-of-span')
        else:
            rec.cls('phase/nonmember/both')
        rec.nontrivial()
        demand_reject('phase', out, why)
    else:
        raise Discard('phase: distance inside the guard band')
    return obs


# --------------------------------------------------------------------------------------------------------
# MatrixEntryComparer

ENTRY_SHAPES = [[2], [3], [4], [2, 2], [2, 3], [3, 2], [3, 3]]
ENTRY_MODES = [0, 0.25, 0.4, 0.5, 1, 'proportional', 'proportional', 'proportional']


@st.composite
def entries_specs(draw):
    shape = draw(st.sampled_from(ENTRY_SHAPES))
    size = int(np.prod(shape))
    cx = draw(st.integers(0, 3)) == 0
    scripted = draw(st.integers(0, 2)) == 0
    pattern = draw(st.sampled_from(['all', 'none', 'some', 'some', 'some']))
    if pattern == 'all':
        states = ['match'] * size
    elif pattern == 'none':
        states = [draw(st.sampled_from(['off', 'off-near'])) for _ in range(size)]
    else:
        states = [draw(st.sampled_from(['match', 'match', 'near', 'off', 'off-near'] +
                                       (['some-samples'] * 2 if scripted else []))) for _ in range(size)]
    n = draw(st.integers(2, 4)) if scripted else 1
    xs = draw(st.lists(fl(0.5, 4.0), min_size=n, max_size=n, unique=True)) if scripted else [1.0]
    return {'shape': shape, 'cx': cx, 'scripted': scripted, 'xs': xs,
            'c': draw(vec(cx, size, -3.0, 3.0)), 'd': draw(vec(cx, size, -3.0, 3.0)), 'states': states,
            'rho': [draw(RHO) for _ in range(size)], 'sgn': [draw(st.sampled_from([1, -1])) for _ in range(size)],
            'hit': draw(st.integers(0, n - 1)),
            'mode': draw(st.sampled_from(ENTRY_MODES)), 'cred': draw(st.sampled_from([1, 1, 1, 0.5, 0.8, 0])),
            'route': draw(st.sampled_from(['option', 'comparer'])), 'tol': draw(TOL), 'seed': draw(SEED),
            # the comparer OBJECT is first used by another grader with a very different tolerance (an author may put one
            # comparer into several graders, or install it with set_default_comparer)
            'shared': draw(st.sampled_from([None, 'loose', 'tight', 'loose-pct']))}


def nest(flat, shape):
    if len(shape) == 1:
        return list(flat)
    return [list(flat[i * shape[1]:(i + 1) * shape[1]]) for i in range(shape[0])]


def strnest(strs, shape):
    if len(shape) == 1:
        return '[' + ','.join(strs) + ']'
    return '[' + ','.join('[' + ','.join(strs[i * shape[1]:(i + 1) * shape[1]]) + ']' for i in range(shape[0])) + ']'


def judge_entries(spec, rec):
    shape, tol, scripted = spec['shape'], spec['tol'], spec['scripted']
    size = int(np.prod(shape))
    xs = [float(x) for x in spec['xs']]
    cs = [num(x) for x in spec['c']]
    ds = [num(x) for x in spec['d']]
    x_hit = xs[spec['hit'] % len(xs)]
    exp_strs, stu_strs, matched = [], [], []
    for j in range(size):
        if scripted:
            evals = [cs[j] * x + ds[j] for x in xs]
            e_str = '%s*x+%s' % (lit(cs[j]), lit(ds[j]))
        else:
            evals = [ds[j]]
            e_str = lit(ds[j])
        state = spec['states'][j]
        los, his = zip(*[tol_bounds(tol, [abs(e)]) for e in evals])
        if state == 'match':
            devs = [0.0] * len(evals)
            s_str = e_str
        elif state == 'some-samples' and scripted:
            amp = spec['sgn'][j] * spec['rho'][j] * max(max(his), 1e-9) / min(abs(x - x_hit) for x in xs if x != x_hit)
            devs = [amp * (x - x_hit) for x in xs]
            s_str = '%s+%s*(x-%s)' % (e_str, lit(amp), lit(x_hit))
        else:
            if state == 'near':
                dev = spec['sgn'][j] * 0.5 * min(los) / 100.0
            elif state == 'off-near':
                dev = spec['sgn'][j] * spec['rho'][j] * max(his)
                if dev == 0:
                    dev = spec['sgn'][j] * 1e-6   # zero entry with a percentage tolerance: any deviation is a mismatch
            else:
                dev = spec['sgn'][j] * max(1.0, 300 * max(his))
            devs = [dev] * len(evals)
            s_str = ('%s+%s' % (e_str, lit(dev))) if scripted else lit(ds[j] + dev)
            if not scripted:
                devs = [(ds[j] + dev) - ds[j]]
        vs = [classify(abs(dv), lo, hi) for dv, lo, hi in zip(devs, los, his)]
        if any(v == 'out' for v in vs):
            matched.append(False)
        elif all(v == 'in' for v in vs):
            matched.append(True)
        else:
            raise Discard('entries: an entry deviation inside the guard band')
        if state == 'some-samples' and scripted and matched[-1] is False and any(v == 'in' for v in vs):
            rec.cls('entries/match-at-some-samples-only')
        exp_strs.append(e_str)
        stu_strs.append(s_str)
    expect, student = strnest(exp_strs, shape), strnest(stu_strs, shape)
    mode, cred = spec['mode'], spec['cred']
    kw = dict(max_array_dim=2, tolerance=tol)
    if scripted:
        kw.update(variables=['x'], sample_from={'x': Scripted(values=xs)}, samples=len(xs))
    if spec['route'] == 'option':
        g = forms.make(MatrixGrader, dict(kw, answers={'expect': expect, 'grade_decimal': cred}, entry_partial_credit=mode),
                       [expect, student, str(mode), cred])
    else:
        cmp_obj = MatrixEntryComparer(entry_partial_credit=mode)
        if spec.get('shared'):
            kw2 = dict(kw, tolerance={'loose': 1e6, 'tight': 0, 'loose-pct': '5000%'}[spec['shared']])
            if scripted:
                kw2['sample_from'] = {'x': Scripted(values=xs)}
            other = MatrixGrader(answers={'expect': {'comparer': cmp_obj, 'comparer_params': [expect]}}, **kw2)
            run(other, student, spec['seed'], rec)
            run(other, expect, spec['seed'], rec)
            rec.cls('entries/comparer-object-shared-with-another-grader')
        g = MatrixGrader(answers={'expect': {'comparer': cmp_obj, 'comparer_params': [expect]}, 'grade_decimal': cred}, **kw)
    out = run(g, student, spec['seed'], rec)
    frac = sum(matched) / float(size)
    if frac == 1:
        want, label = cred, 'entries/all'
    elif frac == 0:
        want, label = 0.0, 'entries/none'
    elif mode == 'proportional':
        want, label = cred * frac, 'entries/some/proportional'
    else:
        want, label = cred * mode, 'entries/some/flat'
    rec.cls(label)
    rec.nontrivial(frac < 1)
    res, exc = out
    obs = {'expect': expect, 'student': student, 'matched': matched, 'want': want, 'got': short(out)}
    if exc is not None:
        raise Violation('entries/error', 'well-shaped submission %s for %s raised %r' % (student, expect, short(out)))
    got = res['grade_decimal']
    if abs(got - want) > GRADE_EPS:
        kind = 'all' if frac == 1 else 'none' if frac == 0 else 'some'
        raise Violation('entries/credit/%s-match' % kind,
                        '%d of %d entries match (pattern %r), entry_partial_credit=%r, answer credit %r: expected '
                        'grade %r, got %r' % (sum(matched), size, matched, mode, cred, want, short(out)))
    if cred == 1:
        want_ok = True if want == 1 and frac == 1 else (False if frac == 0 else None)
        if want_ok is not None and res['ok'] is not want_ok:
            raise Violation('entries/verdict', 'grade %r but ok=%r (%d of %d entries match)'
                            % (got, res['ok'], sum(matched), size))
    return obs


# --------------------------------------------------------------------------------------------------------
# LinearComparer

TEMPLATES = [
    ('x^2', lambda x: x ** 2),
    ('x^3-2*x', lambda x: x ** 3 - 2 * x),
    ('sin(x)+2', lambda x: math.sin(x) + 2),
    ('exp(x/2)', lambda x: math.exp(x / 2)),
    ('1/x+x', lambda x: 1 / x + x),
    ('3*x+1', lambda x: 3 * x + 1),
    ('x', lambda x: x),
]
MODES = ('equals', 'proportional', 'offset', 'linear')
CREDITS = [None, None, 0, 0.1, 0.3, 0.5, 0.6, 1.0]
ZERO_STRS = ['0', '0*x', 'x-x']


def fit_errors(S, E):
    """Own computation of the four fit residuals for expected = a*student + b."""
    S, E = np.asarray(S, dtype=float), np.asarray(E, dtype=float)
    out = {'equals': nrm(E - S)}
    ss = float(S @ S)
    out['proportional'] = nrm(E - (float(S @ E) / ss) * S) if ss > 0 else nrm(E)
    out['offset'] = nrm(E - S - np.mean(E - S))
    Sc, Ec = S - np.mean(S), E - np.mean(E)
    scc = float(Sc @ Sc)
    if scc > 1e-24 * max(1.0, ss):
        out['linear'] = nrm(Ec - (float(Sc @ Ec) / scc) * Sc)
    else:
        out['linear'] = nrm(Ec)
    return out


def linear_expected(S, E, credits, tol, cred):
    """-> (expected grade, dict mode -> holds, zero flag); raises Discard in the guard band."""
    S, E = np.asarray(S, dtype=float), np.asarray(E, dtype=float)
    stu_zero = not np.any(S != 0)
    exp_zero = not np.any(E != 0)
    if not stu_zero:
        # the student side must not be 'zero within tolerance' either
        per = [tol_bounds(tol, [abs(e)])[1] for e in E]
        if not any(abs(s) >= 100 * t for s, t in zip(S, per)):
            raise Discard('linear: student samples not safely nonzero')
    zero = stu_zero or exp_zero
    errs = fit_errors(S, E)
    lo, hi = tol_bounds(tol, [nrm(S), nrm(E)] if not zero else [max(nrm(S), nrm(E))])
    if isinstance(tol, str) and not zero:
        lo = lo / math.sqrt(len(S))
    holds = {}
    best = 0.0
    for mode in MODES:
        if credits[mode] is None:
            continue
        if zero and mode in ('proportional', 'linear'):
            holds[mode] = 'excluded'
            continue
        v = classify(errs[mode], lo, hi)
        if stu_zero and isinstance(tol, str):
            # percentage tolerance relative to a zero student (statement-level ambiguity): only relations that hold
            # exactly, or fail by far under every reading, are judged
            v = 'in' if errs[mode] == 0 else ('out' if v == 'out' else 'band')
        if v == 'band':
            raise Discard('linear: a fit residual inside the guard band')
        holds[mode] = v == 'in'
        if v == 'in':
            best = max(best, credits[mode])
    return cred * best, holds, zero


def judge_linear_case(expected_str, student_str, E, S, credits, cred, tol, xs, seed, rec, label):
    lc = LinearComparer(**{m: credits[m] for m in MODES})
    g = FormulaGrader(answers={'expect': {'comparer': lc, 'comparer_params': [expected_str]}, 'grade_decimal': cred},
                      variables=['x'], sample_from={'x': Scripted(values=xs)}, samples=len(xs), tolerance=tol)
    want, holds, zero = linear_expected(S, E, credits, tol, cred)
    if seed % 2 == 1:
        # history: the same grader (and comparer instance) first grades a zero submission; the comparer's handling
        # of zero must not leak into the judged call (a seeded change stored the reduced mode list on the instance)
        try:
            run(g, '0', seed, rec)
        except Exception:  # noqa: BLE001 - only the judged call below is judged
            pass
        rec.cls('linear/after-zero-comparison')
    out = run(g, student_str, seed, rec)
    res, exc = out
    obs = {'expected': expected_str, 'student': student_str, 'credits': credits, 'holds': holds, 'want': want,
           'got': short(out)}
    rec.cls(label)
    rec.nontrivial()
    got = 0.0 if exc is not None else res['grade_decimal']
    if exc is not None:
        rec.note('linear/error-counted-as-no-credit')
    if abs(got - want) > GRADE_EPS:
        if zero and got > want:
            key = 'linear/credit-when-zero'
        elif got > want:
            key = 'linear/credit-too-high'
        else:
            key = 'linear/credit-too-low'
        raise Violation(key, 'expected=%s student=%s samples x=%r credits=%r answer credit %r tol=%r: relations that '
                        'hold %r -> grade %r, got %r' % (expected_str, student_str, xs, credits, cred, tol, holds,
                                                         want, short(out)))
    return obs


def linear_strings(fi, a, b, kind, zs, q, xs):
    """expected/student strings and their sample values for one LinearComparer case."""
    e_str, e_fn = TEMPLATES[fi]
    E = [e_fn(x) for x in xs]
    if kind == 'related':
        s_str = '((%s)-%s)/%s' % (e_str, lit(b), lit(a))
        S = [(e - b) / a for e in E]
    elif kind == 'unrelated':
        s_str = '((%s)-%s)/%s+%s*x^3' % (e_str, lit(b), lit(a), lit(q))
        S = [(e - b) / a + q * x ** 3 for e, x in zip(E, xs)]
    elif kind == 'zero-student':
        s_str, S = ZERO_STRS[zs], [0.0] * len(xs)
    elif kind == 'zero-expected':
        s_str, S = '((%s)-%s)/%s' % (e_str, lit(b), lit(a)), [(e - b) / a for e in E]
        e_str, E = ZERO_STRS[zs], [0.0] * len(xs)
    elif kind == 'both-zero':
        s_str, S = ZERO_STRS[(zs + 1) % 3], [0.0] * len(xs)
        e_str, E = ZERO_STRS[zs], [0.0] * len(xs)
    elif kind == 'const-vs-zero-student':
        e_str, E = lit(b if b != 0 else 3.5), [b if b != 0 else 3.5] * len(xs)
        s_str, S = ZERO_STRS[zs], [0.0] * len(xs)
    elif kind == 'const-student':
        # a nonzero constant submission against a varying expected answer: no (a, b) maps it onto the answer
        c = b if abs(b) > 0.05 else 3.5
        s_str, S = lit(c), [c] * len(xs)
    elif kind == 'zero-expected-vs-const':
        e_str, E = ZERO_STRS[zs], [0.0] * len(xs)
        s_str, S = lit(b if b != 0 else 3.5), [b if b != 0 else 3.5] * len(xs)
    else:
        raise ValueError(kind)
    return e_str, s_str, E, S


@st.composite
def linear_specs(draw):
    n = draw(st.integers(3, 6))
    kind = draw(st.sampled_from(['related'] * 5 + ['unrelated', 'unrelated', 'zero-student', 'zero-expected',
                                                    'both-zero', 'const-vs-zero-student', 'zero-expected-vs-const',
                                                    'const-student', 'const-student']))
    credits = {m: draw(st.sampled_from(CREDITS)) for m in MODES}
    if draw(st.integers(0, 3)) > 0 and credits['equals'] is None:
        credits['equals'] = 1.0
    return {'f': draw(st.integers(0, len(TEMPLATES) - 1)),
            'xs': draw(st.lists(fl(0.5, 4.0), min_size=n, max_size=n, unique=True)),
            'a': draw(st.one_of(st.just(1.0), signed(0.2, 5.0))), 'b': draw(st.one_of(st.just(0.0), signed(0.1, 5.0))),
            'kind': kind, 'credits': credits, 'cred': draw(st.sampled_from([1, 1, 1, 0.5, 0])),
            'tol': draw(TOL), 'rho': draw(RHO), 'zs': draw(st.integers(0, 2)), 'seed': draw(SEED)}


def judge_linear(spec, rec):
    xs = [float(x) for x in spec['xs']]
    if min(abs(p - q) for p, q in itertools.combinations(xs, 2)) < 1e-3:
        raise Discard('linear: two samples (nearly) coincide')
    a, b, kind, tol = float(spec['a']), float(spec['b']), spec['kind'], spec['tol']
    q = 0.0
    if kind == 'unrelated':
        # cubic term sized so that the best linear fit misses by about rho x tolerance
        _, _, E, S0 = linear_strings(spec['f'], a, b, 'related', 0, 0.0, xs)
        w = np.array([x ** 3 for x in xs])
        A = np.vstack([np.array(S0), np.ones(len(xs))]).T
        rw = nrm(w - A @ np.linalg.lstsq(A, w, rcond=None)[0])
        if rw < 1e-3:
            raise Discard('linear: cubic term (nearly) linear in the student samples')
        hi = tol_bounds(tol, [nrm(S0), nrm(E)])[1]
        q = spec['rho'] * hi * 1.1 / (rw * abs(a))
    e_str, s_str, E, S = linear_strings(spec['f'], a, b, kind, spec['zs'], q, xs)
    if kind == 'related':
        label = 'linear/related/' + ('equals' if (a, b) == (1, 0) else 'proportional' if b == 0 else
                                      'offset' if a == 1 else 'linear')
    elif kind in ('zero-student', 'const-vs-zero-student', 'both-zero'):
        label = 'linear/zero-student'
    elif kind in ('zero-expected', 'zero-expected-vs-const'):
        label = 'linear/zero-expected'
    elif kind == 'const-student':
        label = 'linear/constant-student'
    else:
        label = 'linear/unrelated'
    return judge_linear_case(e_str, s_str, E, S, spec['credits'], spec['cred'], tol, xs, spec['seed'], rec, label)


GRID_XS = [1.25, 2.0, 2.75, 3.5, 0.75]
GRID_AB = [(1.0, 0.0), (2.5, 0.0), (1.0, 1.25), (-0.75, -2.0)]
GRID_CREDITS = [dict(zip(MODES, (1.0, 0.5, 0.3, 0.1))), dict(zip(MODES, (0.1, 0.3, 0.5, 1.0)))]


def linear_grid(tier):
    for subset in itertools.product([False, True], repeat=4):
        for ci, base in enumerate(GRID_CREDITS):
            credits = {m: (base[m] if on else None) for m, on in zip(MODES, subset)}
            for tol in ('0.01%', 1e-6):
                for (a, b) in GRID_AB:
                    yield {'kind': 'related', 'a': a, 'b': b, 'credits': credits, 'tol': tol, 'zs': 0, 'f': 0}
                yield {'kind': 'unrelated', 'a': 1.0, 'b': 0.0, 'credits': credits, 'tol': tol, 'zs': 0, 'f': 0}
                for zs in range(3):
                    for kind in ('zero-student', 'both-zero', 'const-vs-zero-student', 'zero-expected-vs-const'):
                        yield {'kind': kind, 'a': 1.0, 'b': 1.25, 'credits': credits, 'tol': tol, 'zs': zs, 'f': 0}
                    for (a, b) in GRID_AB[:3]:
                        yield {'kind': 'zero-expected', 'a': a, 'b': b, 'credits': credits, 'tol': tol, 'zs': zs,
                               'f': 6}


def judge_linear_grid(spec, rec):
    kind = spec['kind']
    q = 0.5 if kind == 'unrelated' else 0.0
    e_str, s_str, E, S = linear_strings(spec['f'], spec['a'], spec['b'], kind, spec['zs'], q, GRID_XS)
    label = 'linear/grid/' + kind
    return judge_linear_case(e_str, s_str, E, S, spec['credits'], 1, spec['tol'], GRID_XS, 0, rec, label)


# --------------------------------------------------------------------------------------------------------
# wrong shapes under every mismatch policy

SHAPE_TARGETS = {
    'vec2': ([2], '[1,2]'), 'vec3': ([3], '[1,2,3]'), 'mat22': ([2, 2], '[[2,0],[0,3]]'),
    'mat23': ([2, 3], '[[1,2,3],[4,5,6]]'), 'scalar': ([], '7'),
    # matrices with an axis of length one are matrices, not vectors (a seeded change squeezed the expected shape)
    'row13': ([1, 3], '[[1,2,3]]'), 'col31': ([3, 1], '[[1],[2],[3]]'),
}
SHAPE_STUDENTS = {
    'scalar': ([], '7'), 'vec2': ([2], '[1,2]'), 'vec3': ([3], '[1,2,3]'), 'vec4': ([4], '[1,2,3,4]'),
    'row13': ([1, 3], '[[1,2,3]]'), 'col21': ([2, 1], '[[1],[2]]'), 'mat22': ([2, 2], '[[2,0],[0,3]]'),
    'mat23': ([2, 3], '[[1,2,3],[4,5,6]]'), 'mat32': ([3, 2], '[[1,4],[2,5],[3,6]]'),
    'tensor': ([1, 2, 2], '[[[2,0],[0,3]]]'), 'col31': ([3, 1], '[[1],[2],[3]]'),
}
SHAPE_NAMES = {0: 'scalar', 1: 'vector', 2: 'matrix', 3: 'tensor'}
# comparer -> the targets it is used with: (answers builder, expected student shape, a right-shape member)
SHAPE_COMPARERS = ['equality', 'entries-option', 'entries-comparer', 'linear', 'eigenvector', 'span', 'phase']


def shape_items(tier):
    for comp in SHAPE_COMPARERS:
        if comp in ('equality', 'entries-option', 'entries-comparer', 'linear'):
            targets = list(SHAPE_TARGETS)
            if comp != 'equality' and comp != 'linear':
                targets.remove('scalar')
        elif comp == 'eigenvector':
            targets = ['mat22']
        else:
            targets = ['vec2', 'vec3']
        for tname in targets:
            for sname in SHAPE_STUDENTS:
                for raised in (True, False):
                    for detail in (None, 'type', 'shape'):
                        for supp in (False, True):
                            yield {'comparer': comp, 'target': tname, 'student': sname, 'is_raised': raised,
                                   'msg_detail': detail, 'suppress': supp}


def judge_shape(spec, rec):
    comp, detail = spec['comparer'], spec['msg_detail']
    tshape, tstr = SHAPE_TARGETS[spec['target']]
    sshape, sstr = SHAPE_STUDENTS[spec['student']]
    kw = dict(max_array_dim=3, answer_shape_mismatch={'is_raised': spec['is_raised'], 'msg_detail': detail},
              suppress_matrix_messages=spec['suppress'])
    want_shape = list(tshape)
    member = tstr
    warm = comp in ('equality', 'entries-option') and sshape != want_shape and len(spec['target'] + spec['student'] + str(spec['msg_detail'])) % 2 == 0
    if warm:
        # history: the grader has no configured answer (the target comes with each call, as edX's expect value) and has
        # just graded a submission of the student's shape against a target of that same shape - then it meets the same
        # submission with a target of ANOTHER shape (a seeded change remembered validated input shapes per grader)
        extra = {'entry_partial_credit': 'proportional'} if comp == 'entries-option' else {}
        inner = forms.make(MatrixGrader, dict(kw, **extra), [tstr, sstr])
        call(inner, sstr, sstr)
        call(inner, sstr, sstr)
        rec.cls('shape/grader-graded-this-shape-before')

        def g(expect, student, _inner=inner):
            return _inner(tstr, student)
    elif comp == 'equality':
        g = MatrixGrader(answers=tstr, **kw)
    elif comp == 'entries-option':
        g = forms.make(MatrixGrader, dict(kw, answers=tstr, entry_partial_credit='proportional'), [tstr, sstr])
    elif comp == 'entries-comparer':
        g = MatrixGrader(answers={'comparer': MatrixEntryComparer(entry_partial_credit=0.5),
                                  'comparer_params': [tstr]}, **kw)
    elif comp == 'linear':
        g = MatrixGrader(answers={'comparer': LinearComparer(proportional=0.5, offset=0.4, linear=0.3),
                                  'comparer_params': [tstr]}, **kw)
    elif comp == 'eigenvector':
        g = MatrixGrader(answers={'comparer': eigenvector_comparer, 'comparer_params': [tstr, '3']}, **kw)
        want_shape, member = [2], '[0,5]'
    elif comp == 'span':
        g = MatrixGrader(answers={'comparer': vector_span_comparer, 'comparer_params': [tstr]}, **kw)
        member = '(2+i)*' + tstr
    else:
        g = MatrixGrader(answers={'comparer': vector_phase_comparer, 'comparer_params': [tstr]}, **kw)
        member = 'i*' + tstr
    if sshape == want_shape:
        out = run(g, member, 0, rec)
        rec.cls('shape/right')
        if not is_accept(out):
            raise Violation('shape/right-shape-member-rejected', '%s grader for %s: member %s of the right shape got '
                            '%r' % (comp, tstr, member, short(out)))
        return {'student': member, 'got': short(out)}
    out = run(g, sstr, 0, rec)
    res, exc = out
    rec.nontrivial()
    obs = {'student': sstr, 'got': short(out)}
    what = '%s grader expecting shape %r, submission %s, policy is_raised=%r msg_detail=%r suppress=%r' % (
        comp, want_shape, sstr, spec['is_raised'], detail, spec['suppress'])
    if res is not None and res['grade_decimal'] != 0:
        raise Violation('shape/wrong-shape-graded', what + ': got credit %r' % short(out))
    if spec['suppress']:
        rec.cls('shape/wrong/suppressed')
        if exc is not None or res['ok'] is not False or res['msg'] != '':
            raise Violation('shape/suppressed-policy', what + ': expected grade 0 with an empty message, got %r'
                            % short(out))
        return obs
    if spec['is_raised']:
        rec.cls('shape/wrong/raised')
        if not isinstance(exc, InputTypeError):
            raise Violation('shape/not-raised', what + ': expected an InputTypeError shape-mismatch report, got %r'
                            % short(out))
        msg = str(exc)
    else:
        rec.cls('shape/wrong/marked-wrong')
        if exc is not None or res['ok'] is not False:
            raise Violation('shape/not-marked-wrong', what + ': expected grade 0 with the mismatch message, got %r'
                            % short(out))
        msg = res['msg']
    exp_name, got_name = SHAPE_NAMES[len(want_shape)], SHAPE_NAMES[len(sshape)]
    digits = any(ch.isdigit() for ch in msg)
    if detail is None:
        good = msg == ''
    elif detail == 'type':
        good = exp_name in msg and got_name in msg and not digits
    else:
        good = exp_name in msg and got_name in msg and all(str(d) in msg for d in want_shape)
    if not good:
        raise Violation('shape/message-detail', what + ': message %r does not have the configured detail' % msg)
    return obs


# --------------------------------------------------------------------------------------------------------

# --------------------------------------------------------------------------------------------------------
# extreme rescalings ("under any rescaling of v"): members and non-members scaled across the whole float range,
# under percentage tolerances (there "nonzero" means exactly that: the tolerance around the zero vector is 0 % of 0)

X_SCALES = [1e-200, 1e-170, -1e-163, 1e-100, 1e100, 1e154, -1e170, 1e200, [1e-180, 1e-180], [0.0, 1e175]]
X_TOLS = ['0.01%', '1%', '10%']
X_EIGEN = [('[[2,0],[0,3]]', '2', [1, 0], [1, 2]), ('[[2,1],[1,2]]', '3', [1, 1], [1, 0]),
           ('[[2,1],[1,2]]', '1', [1, -1], [1, 1]), ('[[0,-1],[1,0]]', 'i', [1, -1j], [1, 1j]),
           ('[[1,1,0],[0,1,0],[0,0,5]]', '5', [0, 0, 1], [0, 1, 0])]
X_SPAN = [(['[1,1,0]', '[0,1,1]'], [1, 2, 1], [1, 0, 0]), (['[1,i]'], [1j, -1], [1, 1]),
          (['[1,0,0]', '[2,0,0]'], [3, 0, 0], [0, 1, 0])]
X_PHASE = [([1, 2], 1j), ([1, -1j, 2], -1), ([3, 4], cmath.exp(0.7j))]


def items_extreme(tier):
    for tol in X_TOLS:
        for sc in X_SCALES:
            for i in range(len(X_EIGEN)):
                for member in (True, False):
                    yield {'fam': 'eigen', 'i': i, 'scale': sc, 'tol': tol, 'member': member}
            for i in range(len(X_SPAN)):
                for member in (True, False):
                    yield {'fam': 'span', 'i': i, 'scale': sc, 'tol': tol, 'member': member}
            for i in range(len(X_PHASE)):
                for variant in ('phase-of-scaled-target', 'scaled-target-times-1.5', 'unit-target-scaled-student'):
                    yield {'fam': 'phase', 'i': i, 'scale': sc, 'tol': tol, 'variant': variant}


def judge_extreme(spec, rec):
    sc = num(spec['scale'])
    tol = spec['tol']

    def scaled(v, f=1):
        return [complex(x) * sc * f for x in v]
    if spec['fam'] == 'eigen':
        M, lam, v, w = X_EIGEN[spec['i']]
        g = MatrixGrader(answers={'comparer': eigenvector_comparer, 'comparer_params': [M, lam]}, max_array_dim=2,
                         tolerance=tol)
        member = spec['member']
        s = scaled(v if member else w)
        why = 'M=%s lambda=%s tol=%r' % (M, lam, tol)
    elif spec['fam'] == 'span':
        cols, v, w = X_SPAN[spec['i']]
        g = MatrixGrader(answers={'comparer': vector_span_comparer, 'comparer_params': cols}, tolerance=tol)
        member = spec['member']
        s = scaled(v if member else w)
        why = 'vectors %s tol=%r' % (cols, tol)
    else:
        t, ph = X_PHASE[spec['i']]
        variant = spec['variant']
        if variant == 'unit-target-scaled-student':
            target, s, member = [complex(x) for x in t], scaled(t, ph), False       # |scale| is never 1
        elif variant == 'scaled-target-times-1.5':
            target, s, member = scaled(t), scaled(t, 1.5 * ph), False
        else:
            target, s, member = scaled(t), scaled(t, ph), True
        g = MatrixGrader(answers={'comparer': vector_phase_comparer, 'comparer_params': [vlit(realify(np.array(target)))]},
                         tolerance=tol)
        why = 'target %s tol=%r (%s)' % (vlit(realify(np.array(target))), tol, variant)
    student = vlit(realify(np.array(s)))
    out = run(g, student, 0, rec)
    why += ' student %s' % student
    rec.cls('extreme/%s/%s' % (spec['fam'], 'member' if member else 'nonmember'))
    rec.nontrivial()
    if member:
        demand_accept('extreme-scale/' + spec['fam'], out, why)
    else:
        demand_reject('extreme-scale/' + spec['fam'], out, why)
    return {'student': student, 'got': short(out)}


PARTS = [
    Part('congruence', 'hyp', muting(judge_congruence), strategy=lambda tier: congruence_specs(),
         budget={'quick': 700, 'thorough': 14000}),
    Part('between', 'hyp', muting(judge_between), strategy=lambda tier: between_specs(),
         budget={'quick': 700, 'thorough': 10000}),
    Part('eigenvector', 'hyp', muting(judge_eigen), strategy=lambda tier: eigen_specs(),
         budget={'quick': 800, 'thorough': 16000}),
    Part('span', 'hyp', muting(judge_span), strategy=lambda tier: span_specs(),
         budget={'quick': 900, 'thorough': 18000}),
    Part('phase', 'hyp', muting(judge_phase), strategy=lambda tier: phase_specs(),
         budget={'quick': 700, 'thorough': 14000}),
    Part('entries', 'hyp', muting(judge_entries), strategy=lambda tier: entries_specs(),
         budget={'quick': 800, 'thorough': 16000}),
    Part('linear', 'hyp', muting(judge_linear), strategy=lambda tier: linear_specs(),
         budget={'quick': 800, 'thorough': 16000}),
    Part('extreme-scale', 'enum', muting(judge_extreme), items=items_extreme, exhaustive=True),
    Part('linear-grid', 'enum', muting(judge_linear_grid), items=linear_grid, exhaustive=True),
    Part('shape', 'enum', muting(judge_shape), items=shape_items, exhaustive=True),
]
