"""Coverage-guided campaign for one shard of a part of kind 'fuzz' (atheris / libFuzzer driving a Hypothesis strategy).

Run as a fresh subprocess (the library must be imported under atheris' instrumentation, so it cannot be a fork of the
runner):  python -m vlib.fuzzworker <module> <part> <shard> <runs> <seed> <tier> <pid> <result.pickle>

libFuzzer mutates a byte string; Hypothesis' fuzz_one_input decodes it into a structured case through the part's own
strategy (so every case is one the strategy could have generated, and the judge - the semantic oracle - is the one the
random parts use); branch coverage of mitxgraders and pyparsing steers the mutation.  A campaign is only approximately
reproducible from its seed; the reproducible unit is the saved failing spec (a replay file like any other).
The worker ends itself after <runs> executions or at the first violation that is not a known finding: atheris.Fuzz()
never returns and atexit hooks do not run, so results are written from inside the callback and the process _exits.
"""
import importlib
import os
import pickle
import sys
import time

HERE = os.path.dirname(os.path.dirname(os.path.abspath(__file__)))


def main(argv):
    modname, partname, shard, runs, seed, tier, pid, outpath = argv
    shard, runs, seed = int(shard), int(runs), int(seed)
    repo = os.path.realpath(os.environ.get('VERIF_REPO', '/repo'))
    sys.path[:0] = [repo, HERE]
    sys.path.append(os.path.join(HERE, '.deps'))
    import warnings
    warnings.filterwarnings('ignore')
    out = {'part': partname, 'shard': shard, 'violations': [], 'error': None, 'wall': 0.0, 'prelude': False}
    t0 = time.time()

    corpus = {'dir': None}

    def finish(rec, code=0):
        if corpus['dir']:
            import shutil
            shutil.rmtree(corpus['dir'], ignore_errors=True)
        out['rec'] = rec.export()
        out['wall'] = time.time() - t0
        with open(outpath, 'wb') as f:
            pickle.dump(out, f)
        sys.stdout.flush()
        sys.stderr.flush()
        os._exit(code)

    from vlib.core import Rec
    rec = Rec()
    try:
        import atheris
    except Exception as e:  # noqa: BLE001
        rec.note('fuzz_unavailable')
        out['skipped'] = 'atheris not importable: %s' % e
        finish(rec)
    with atheris.instrument_imports(include=['mitxgraders', 'pyparsing'], enable_loader_override=False):
        import mitxgraders  # noqa: F401
        import mitxgraders.helpers.calc  # noqa: F401
    mod = importlib.import_module(modname)
    from vlib import runner
    part = {p.name: p for p in mod.PARTS}[partname]
    from hypothesis import given, settings, HealthCheck

    state = {'n': 0, 'valid': 0}

    @settings(database=None, deadline=None, suppress_health_check=list(HealthCheck))
    @given(part.strategy(tier))
    def test(spec):
        state['valid'] += 1
        v = runner.run_case(part, spec, rec, pid)
        if v is not None:
            out['violations'].append(runner.viol_dict(part, v, seed, tier))
            rec.note('fuzz_executions', state['n'])
            rec.note('fuzz_decoded_cases', state['valid'])
            finish(rec)

    fuzz_one = test.hypothesis.fuzz_one_input

    def target(data):
        state['n'] += 1
        try:
            fuzz_one(data)
        except SystemExit:
            raise
        except BaseException as e:  # noqa: BLE001 - harness trouble: report, never disguise
            import traceback
            out['error'] = 'fuzz target failed:\n' + ''.join(traceback.format_exception(type(e), e, e.__traceback__))[-4000:]
            finish(rec)
        if state['n'] >= runs:
            rec.note('fuzz_executions', state['n'])
            rec.note('fuzz_decoded_cases', state['valid'])
            rec.note('fuzz_shards')
            finish(rec)

    # Starting corpus: a few byte strings long enough for the strategy to decode at all (Hypothesis' decoder is not
    # instrumented, so libFuzzer gets no gradient towards "long enough" from an empty corpus: a tree strategy decoded
    # 0 of 6 000 executions when started empty).  The bytes are a pure function of the seed (hash chain); both an empty
    # input and these are in the corpus.  The directory lives under /var/tmp only while the worker runs.
    import hashlib
    import tempfile
    corpus['dir'] = tempfile.mkdtemp(prefix='mitxfuzz.', dir='/var/tmp')
    block = hashlib.sha256(('%d/%d/%s' % (seed, shard, partname)).encode()).digest()
    for k, size in enumerate((64, 256, 512, 1024, 2048, 4096, 4096, 4096)):
        data = b''
        while len(data) < size:
            block = hashlib.sha256(block).digest()
            data += block
        with open(os.path.join(corpus['dir'], 'seed%d' % k), 'wb') as f:
            f.write(data[:size] if k % 2 else bytes(b % 64 for b in data[:size]))   # small values decode as short choices
    args = [sys.argv[0], '-seed=%d' % (seed * 1000 + shard + 1), '-max_len=8192', '-len_control=0', '-timeout=120',
            '-rss_limit_mb=4096', '-print_final_stats=0', corpus['dir']]
    atheris.Setup(args, target)
    atheris.Fuzz()
    finish(rec)


if __name__ == '__main__':
    main(sys.argv[1:])
