"""C02 - with debug off only library errors escape a grader call, with student-safe messages; calls terminate."""
import time
import traceback

from hypothesis import strategies as st

from vlib.core import Part, Violation, Discard, watchdog, call, lib_frames
from vlib import gspec
from vlib import exprgen

from mitxgraders.exceptions import MITxError, StudentFacingError, ConfigError
from mitxgraders.helpers.calc.exceptions import (CalcError, UnableToParse, UnbalancedBrackets, UndefinedVariable,
                                                  UndefinedFunction, DomainError, CalcZeroDivisionError,
                                                  CalcOverflowError, FunctionEvalError, MathArrayError,
                                                  ArgumentShapeError)
from mitxgraders.exceptions import InputTypeError
from mitxgraders.sampling import set_seed
from voluptuous import Error as SchemaError

RULE = ("'hostile' (random): a grader spec (vlib/gspec.py; String, Formula, Numerical, Matrix, SingleList, Interval, Sum, "
        "List incl. nested/grouped; debug off) and a submission whose boxes are (a) expression-generator formulas over the "
        "grader's variables pushed out of domain (poles, 0/0, 1e308*10, ln(0), complex into real-only functions, "
        "shape-incompatible array arithmetic, fractional matrix powers, [1,2]||3), (b) mutations of a matching / near-miss "
        "answer (inserted hostile tokens, deleted / duplicated characters, unbalanced and up to 400-deep brackets, unknown "
        "names, wrong arities, stray and blank list items and delimiters, non-ASCII digits, operators and whitespace), "
        "(c) raw unicode text, or the plain answer. Oracle: the call (30 s watchdog) must return (the C01 shape "
        "invariants are re-checked) or raise an MITxError; when it raised, the same spec with debug=True and the same "
        "seed is called: twin raises an MITxError E -> the debug-off call must have raised exactly type(E) with message "
        "str(E).replace('\\n','<br/>'); twin raises anything else -> the debug-off call must have raised exactly "
        "StudentFacingError \"Invalid Input: Could not check input '<input>'\" (inputs '<a>', '<b>' for a list). "
        "'nontext' (random): the same graders given None, ints, floats, bools, bytes, dicts, tuples, lists containing "
        "non-strings, nested lists, a list where one text is required and a text where a list is required: must raise "
        "ConfigError. 'anchors' (exhaustive list): 41 documented problems (unparsable, unbalanced, undefined name, "
        "division by zero, overflow, wrong arity, shape mismatch, empty list entry, bad bracket, wrong input count, bad "
        "summation limits ...) on fixed graders must raise exactly the library's specific class for that problem, and "
        "pass the same differential. 'families' (random): Formula / Numerical / Matrix graders given a generated "
        "formula of any length broken in a known way (trailing / leading / doubled operator -> UnableToParse; "
        "unclosed / unopened bracket -> UnbalancedBrackets): that class must be raised. 'undefined-names' (random): "
        "Formula / Numerical / Matrix graders whose variables, user functions and numbered variables are drawn from every "
        "documented name shape (primes, brace and tensor indices), metric suffixes on or off, and a submission that "
        "contains exactly one name the grader does not know (case variant, added prime, changed index, unrelated name, "
        "case variant of a default function / constant, a variable called as a function, an unknown or case-variant "
        "suffix) at top level, in a cancelling term, an exponent, a function argument or an array entry: must raise "
        "exactly UndefinedVariable / UndefinedFunction with a message naming the offender - judged against the "
        "configuration, because the debug twin would fail identically. Non-trivial = the debug-off call raised; distinct by spec. Buckets by grader kind x twin "
        "exception type.")
ASSUMPTIONS = ["attempt is an int (or omitted when no attempt credit is configured, rarely omitted otherwise); expect is None",
               "SumGrader limit boxes only receive text from a bounded pool (|limit| <= 2000, infty_val <= 200): the docs "
               "warn that large cutoffs are slow, which is not a termination defect",
               "one-directional differential: a twin that returns while the debug-off call raised an MITxError cannot "
               "classify the error and is discarded (counted); a twin failing inside debug-only logging code "
               "(log_eval_info, log_comparison_info, log_output) is counted as debug_only_failure and discarded",
               "a call is given 30 s (normal: milliseconds; slowest seen is recorded in maxima) before it violates the "
               "termination clause; the elapsed time is also measured because a timeout exception raised inside the "
               "guarded region would itself be replaced by the generic error",
               "thorough tier only: part 'hostile-fuzz' is a coverage-guided atheris/libFuzzer campaign over the 'hostile' "
               "strategy and oracle (vlib/fuzzworker.py); if atheris cannot be imported the part is skipped and the "
               "evidence notes fuzz_unavailable",
               "'undefined-names': the grader's own answer must be accepted (else the case is discarded); the offending "
               "name is in no scope of the grader by construction"]
REQUIRED = {'twin/unanticipated': 100, 'twin/domain-error': 100, 'twin/shape-error': 40, 'nontext/refused': 300,
            'twin/parse-error': 200, 'twin/unbalanced': 50, 'twin/undefined-name': 100, 'twin/config-error': 30,
            'message/line-breaks-rendered': 50, 'returned': 500, 'generic/list-form': 10, 'generic/single-form': 50,
            'deep-brackets>=50': 20, 'how/domain': 300, 'how/mutate': 300, 'how/text': 200,
            'family/longer-than-40': 100, 'family/trailing-operator': 50, 'family/unclosed': 50}
for _k in gspec.KINDS:
    REQUIRED['raised/' + _k] = 30
    REQUIRED['nontext/' + _k] = 15
REQUIRED.update({'undefined/did-you-mean-with-braces': 30, 'undefined/name-with-braces': 100, 'undefined/suffix': 15,
                 'undefined/func-case': 10, 'undefined/numbered-case': 3})
REQUIRED.update({'nontext-kind/text-where-list-required': 25, 'nontext-kind/list-where-text-required': 100,
                 'nontext-kind/nested-list': 30, 'nontext-kind/list-with-one-non-text': 30})

DEBUG_ONLY_FUNCS = {'log_eval_info', 'log_comparison_info', 'log_output'}

# ----------------------------------------------------------------------------------------------------
# hostile text

OUT_OF_DOMAIN = ['[1,2]||3', '3||[1,2]', '[1,2]||[3,4]', 'zqx||[zqx,1]', '1/(zqx-zqx)', '0/0', '1e308*10', 'ln(0)', 'log10(0)', '0^-1', 'arctanh(1)', 'cot(0)', 'csc(0)',
                 '[1,2]+[1,2,3]', '[[1,2],[3,4]]^0.5', '[1,2]||3', '10^400', 'e^1000', 'cosh(1000)', 'fact(0.5)',
                 'fact(-1)', 'fact(200)', 'arccos(2)', 'sqrt(-4)', 'ln(-1)', 'min(1)', 'max()', 'abs(1,2)', 're([1,2])',
                 'norm(3)', 'det([1,2])', 'trans(1)', 'cross([1,2],[3,4])', 'zqx^zqx^zqx^zqx^zqx^9', '2^[1,2]',
                 '[1,2]^2', '[[1,2],[2,4]]^-1', 'I^0.5', '(-8)^(1/3)', '0^0', '0^i', 'infty', 'infty-infty',
                 '[[1,2],[3,4]]*[1,2,3]', '[1,2]*[[1,2],[3,4]]*[1,2,3]', 'sin([1,2])', '[1,2]/[1,2]', '1/[1,2]',
                 'arctan2(0,0)', 'arctan2(1)', 'tan(pi/2)', '1e-400', '1/1e-320', 'sqrt([4,9])', 'kronecker(1,2,3)',
                 'zqf(1,2)', 'zqf()', 'zqf([1,2])', 'floor(i)', 'ceil(1+i)', 'max(i,1)', 'min(2*i,3)', '(1+i)%2',
                 '5%0', '[1,[2,3]]', '[[1,2],[3]]', '[]', 'cross([1,2,3],[1,2])', 'det([[1,2,3],[4,5,6]])',
                 'tr([1,2])', 'adj(3)', 'ctrans(2)', 'norm([[1,2],[3,4]])^0.5', 'abs([1,2])^-0.5', '2^1024',
                 '(-1)^0.5', 'arcsin(1e308)', 'exp([[1,2],[3,4]])', 'zqn_{1}/zqn_{1}^2^9^9', 'zqn_{01}', 'zqn_{1.5}']
HOST = ['**', '//', ')(', '()', '[]', 'f()', ',', '$', '×', '²', '１', '٣', '\xa0', '\x0b', '\n', '\t', '(', '[',
        ']', ')', '{', '}', '^', '-', '—', '|', '||', 'i', '0', '1e308', '1e-320', 'e', '.', '%', "'", '_', 'sin(', 'ln(',
        '[[', 'X', 'Sin', '   ', ';', ',,', '÷', '−', '·', '∗', '⁄', '\u2009', '\u2028', '\u200b', '\ufeff', '\r', '\r\n',
        '\x00', '\\', '"', '<b>', '&', '{}', '{0}', '%s', '_{', '_{1}', "''", '!', '=', '==', '<', '>', '@', '#', '~',
        '`', '?', ':', 'λ', 'π', '∞', '√', 'Ⅳ', '½', '𝟙', '𝑥', 'ｘ', '（', '）', '，', '；', '\U0001F600', 'é', 'ß']
DIGITS = {'0': '٠０⁰', '1': '١１¹', '2': '٢２²', '3': '٣３³', '4': '٤４', '5': '٥５', '6': '٦６', '7': '٧７', '8': '٨８',
          '9': '٩９'}
OPS = {'*': '×·∗', '/': '÷⁄', '-': '−—–', '+': '＋', '^': 'ˆ', ' ': '\xa0\u2009\u3000\t', ',': '，،', '(': '（', ')': '）',
       '[': '［', ']': '］', '.': '．'}
FUNCS = ['sin', 'max', 'cross', 'det', 'f', 'arctan2', 'zqf', 'abs', 'norm', 'min', 'sqrt', 'ln']


def mutate(draw, s):
    """Apply 1-4 string mutators (DESIGN 4.1) to s; returns (text, deepest bracket nest added)."""
    deep = 0
    for _ in range(draw(st.sampled_from([1, 1, 2, 1, 3, 4]))):
        k = draw(st.sampled_from([4, 0, 1, 2, 3, 4, 5, 6, 7, 8, 9, 10, 11, 12, 13, 4]))
        i = draw(st.integers(0, len(s)))
        if k == 0 or k == 1:
            s = s[:i] + draw(st.sampled_from(HOST)) + s[i:]
        elif k == 2 and s:
            s = s[:i] + s[i + 1:]
        elif k == 3 and s:
            j = draw(st.integers(0, len(s) - 1))
            s = s[:i] + s[j] + s[i:]
        elif k == 4:
            n = draw(st.sampled_from([1, 2, 3, 5, 20, 60, 150, 400]))
            m = n if draw(st.integers(0, 3)) != 1 else draw(st.integers(0, n))
            o, c = draw(st.sampled_from(['()', '()', '[]', ('sin(', ')'), ('[', ',1]')]))
            s = o * n + s + c * m
            deep = max(deep, n)
        elif k == 5:
            arity = draw(st.integers(0, 3))
            s = draw(st.sampled_from(FUNCS)) + '(' + ','.join([s] * arity) + ')'
        elif k == 6:
            s = s + draw(st.sampled_from(list('+-*/^,;|') + ['||', '**'])) + draw(st.sampled_from(OUT_OF_DOMAIN + ['', s]))
        elif k == 7:
            # non-ASCII look-alikes for digits / operators / whitespace
            out = []
            for ch in s:
                pool = DIGITS.get(ch) or OPS.get(ch)
                if pool and draw(st.integers(0, 2)) == 0:
                    out.append(draw(st.sampled_from(pool)))
                else:
                    out.append(ch)
            s = ''.join(out)
        elif k == 8:
            # stray / blank list items and delimiters
            d = draw(st.sampled_from([',', ';', '|', ', ', ',,', ' , ,']))
            where = draw(st.integers(0, 3))
            s = d + s if where == 0 else s + d if where == 1 else s[:i] + d + s[i:] if where == 2 else s + d + s
        elif k == 9:
            # unknown / case-changed names
            a, b = draw(st.sampled_from([('zqx', 'zqq'), ('zqx', 'ZQX'), ('zqy', 'zqx1'), ('sin', 'Sin'), ('zq', 'qz'),
                                         ('zqf', 'zqg'), ('n', 'nn'), ('zqa', 'zqA'), ('infty', 'inf'), ('pi', 'Pi')]))
            s = s.replace(a, b)
        elif k == 10:
            s = s.swapcase() if draw(st.booleans()) else s[::-1]
        elif k == 11:
            s = s[:i]                      # truncated while typing
        elif k == 12:
            s = s * draw(st.sampled_from([2, 3, 10]))
        else:
            s = draw(st.sampled_from(['-', '+', '--', '+-', ' ', '(', '-(', '1/'])) + s
    return s[:3000], deep


_trees = exprgen.trees(var_names=['zqx', 'zqy'], func_names=['sin', 'cos', 'exp', 'sqrt', 'abs', 'ln', 'arctan', 'tan',
                                                              'sinh', 'max', 'min', 're'], max_leaves=5)


def out_of_domain(draw):
    frag = draw(st.sampled_from(OUT_OF_DOMAIN))
    base = exprgen.render(draw(_trees))
    k = draw(st.integers(0, 7))
    if k == 0:
        return frag
    if k == 1:
        return '%s+(%s)' % (base, frag)
    if k == 2:
        return '(%s)*(%s)' % (frag, base)
    if k == 3:
        return '%s(%s)' % (draw(st.sampled_from(['sin', 'sqrt', 'ln', 'exp', 'abs', 'arccosh', 'fact', 'norm', 'det'])), frag)
    if k == 4:
        return '(%s)^(%s)' % (base, frag)
    if k == 5:
        return '(%s)/(%s)' % (base, frag)
    if k == 6:
        return '[%s,%s]' % (base, frag)
    return '%s(%s)' % (draw(st.sampled_from(['ln', 'sqrt', 'arcsin', 'arccosh', 'log10', 'arctanh', 'fact', '1/'])), base) \
        if draw(st.booleans()) else '(%s)^-(%s)^-(%s)' % (base, base, base)


def hostile_box(draw, plain):
    """-> (text, label, depth) for one input box whose plausible content is `plain`."""
    how = draw(st.sampled_from(['domain', 'mutate', 'domain', 'text', 'mutate', 'domain']))
    deep = 0
    if how == 'domain':
        t = out_of_domain(draw)
    elif how == 'text':
        t = draw(st.text(max_size=draw(st.sampled_from([3, 10, 40]))))
    else:
        t, deep = mutate(draw, plain)
    if gspec.chance(draw, 15):
        # surrounding whitespace: the generic error must name the submission as it was made
        pad = st.sampled_from([' ', '  ', '\t', '\n', '\xa0'])
        t = (draw(pad) if draw(st.booleans()) else '') + t + (draw(pad) if draw(st.booleans()) else '')
    return t, how, deep


@st.composite
def strat_hostile(draw, tier):
    case = draw(gspec.grader_cases())
    slots = case['slots']
    vals, hows, deep = [], [], 0
    free = [i for i, s in enumerate(slots) if not s.limit]
    forced = draw(st.sampled_from(free)) if free else None
    for i, s in enumerate(slots):
        plain = draw(s.good) if draw(st.integers(0, 2)) else draw(s.near)
        if s.limit or (i != forced and draw(st.integers(0, 2)) != 0):
            vals.append(plain)
            hows.append('plain')
        else:
            t, how, d = hostile_box(draw, plain)
            vals.append(t)
            hows.append(how)
            deep = max(deep, d)
    if case['single']:
        inp = [vals[0]] if (case['kind'] == 'Sum' and draw(st.booleans())) else vals[0]
    else:
        inp = vals
        if gspec.chance(draw, 4):
            inp = inp[:-1] if draw(st.booleans()) and len(inp) > 1 else inp + ['zzz']
    attempt = draw(gspec.attempts)
    if 'attempt_based_credit' in case['g']['kw']:
        if gspec.chance(draw, 3):
            attempt = None
    elif gspec.chance(draw, 50):
        attempt = None
    return {'kind': case['kind'], 'g': case['g'], 'input': inp, 'attempt': attempt, 'how': hows, 'deep': deep,
            'seed': draw(st.integers(0, 10 ** 6))}


# ----------------------------------------------------------------------------------------------------
# the oracle


def generic_message(inp):
    if isinstance(inp, list):
        return "Invalid Input: Could not check inputs '{}'".format("', '".join(inp))
    return "Invalid Input: Could not check input '{}'".format(inp)


def timed_call(rec, grader, inp, kwargs, seed):
    set_seed(seed)
    t0 = time.perf_counter()
    with watchdog(30):
        status, val = call(grader, None, inp, **kwargs)
    dt = time.perf_counter() - t0
    rec.calls()
    rec.maximum('slowest_call_s', round(dt, 3))
    if dt >= 29.5:
        raise Violation('watchdog', 'call took %.1f s' % dt)
    return status, val


def twin_bucket(e):
    if not isinstance(e, MITxError):
        return 'unanticipated'
    if isinstance(e, UnableToParse):
        return 'parse-error'
    if isinstance(e, UnbalancedBrackets):
        return 'unbalanced'
    if isinstance(e, (UndefinedVariable, UndefinedFunction)):
        return 'undefined-name'
    if isinstance(e, (InputTypeError, ArgumentShapeError, MathArrayError)):
        return 'shape-error'
    if isinstance(e, (DomainError, CalcZeroDivisionError, CalcOverflowError, FunctionEvalError)):
        return 'domain-error'
    if isinstance(e, ConfigError):
        return 'config-error'
    return 'other-student-facing'


def differential(rec, make, inp, kwargs, seed, kind, is_list):
    """The C02 oracle for one text submission; returns ('returned', result) or ('raised', exception).

    make() builds a fresh (debug-off grader, debug-on twin) pair.  A mismatch between the two calls is confirmed on a
    second, fresh pair before it is reported: whether a deeply nested input exhausts the interpreter stack can depend
    on what earlier calls left in the parser caches, and a defect in the error handling reproduces regardless."""
    try:
        return _differential(rec, make, inp, kwargs, seed, kind, is_list)
    except Violation as v:
        if not v.key.startswith(('anticipated/', 'unanticipated/')):
            raise
        rec.note('mismatch_rechecked')
    return _differential(rec, make, inp, kwargs, seed, kind, is_list)


def _differential(rec, make, inp, kwargs, seed, kind, is_list):
    g0, g1 = make()
    status, val = timed_call(rec, g0, inp, kwargs, seed)
    if status == 'ok':
        prob = gspec.shape_problem(val, inp, is_list)
        if prob:
            raise Violation('returned-malformed', 'returned value breaks the C01 shape: %s' % prob, result=val)
        rec.cls('returned')
        rec.cls('returned/' + kind)
        return 'returned', val
    e = val
    rec.nontrivial()
    rec.cls('raised/' + kind)
    if not isinstance(e, MITxError):
        fr, _ = lib_frames(e.__traceback__)
        where = '%s:%s' % (fr.filename.split('/')[-1], fr.name) if fr else '?'
        raise Violation('foreign-exception/%s/%s' % (type(e).__name__, where),
                        '%s escaped with debug off: %s' % (type(e).__name__, str(e)[:200]),
                        traceback=''.join(traceback.format_exception(type(e), e, e.__traceback__))[-2000:])
    s1, t = timed_call(rec, g1, inp, kwargs, seed)
    if s1 == 'ok':
        rec.note('twin_returned')
        raise Discard('twin-returned')
    b = twin_bucket(t)
    rec.cls('twin/' + b)
    rec.cls('%s/%s' % (kind, type(t).__name__))
    if isinstance(t, MITxError):
        want = str(t).replace('\n', '<br/>')
        if type(e) is not type(t):
            raise Violation('anticipated/class-changed', 'debug-off raised %s (%s) but the anticipated problem is %s (%s)'
                            % (type(e).__name__, str(e)[:150], type(t).__name__, str(t)[:150]))
        if str(e) != want:
            key = 'anticipated/line-breaks-not-rendered' if str(e).replace('\n', '<br/>') == want \
                else 'anticipated/message-changed'
            raise Violation(key, '%s message differs: debug-off %r, expected %r' % (type(e).__name__, str(e)[:200],
                                                                                    want[:200]))
        if '\n' in str(t):
            rec.cls('message/line-breaks-rendered')
        return 'raised', e
    # the twin shows an internal failure: was it inside debug-only logging code?
    names = {f.name for f in traceback.extract_tb(t.__traceback__)}
    want = generic_message(inp)
    if names & DEBUG_ONLY_FUNCS and not (type(e) is StudentFacingError and str(e) == want):
        rec.note('debug_only_failure')
        raise Discard('debug-only-failure')
    if type(e) is not StudentFacingError:
        raise Violation('unanticipated/not-generic-class', 'internal %s (%s) surfaced as %s: %s' % (
            type(t).__name__, str(t)[:120], type(e).__name__, str(e)[:150]))
    if str(e) != want:
        raise Violation('unanticipated/generic-message-wrong', 'internal %s surfaced with message %r, expected %r' % (
            type(t).__name__, str(e)[:200], want[:200]))
    rec.cls('generic/list-form' if isinstance(inp, list) else 'generic/single-form')
    rec.note('internal/' + type(t).__name__)
    return 'raised', e


def judge_hostile(spec, rec):
    g, inp, kind = spec['g'], spec['input'], spec['kind']
    def make():
        return gspec.build(g, debug=False), gspec.build(g, debug=True)
    try:
        make()
    except (MITxError, SchemaError):
        raise Discard('invalid-config/%s' % kind)
    kwargs = {} if spec['attempt'] is None else {'attempt': spec['attempt']}
    for h in set(spec.get('how', [])):
        rec.cls('how/' + h)
    if spec.get('deep', 0) >= 50:
        rec.cls('deep-brackets>=50')
    status, val = differential(rec, make, inp, kwargs, spec['seed'], kind, g['$g'] == 'ListGrader')
    return {'outcome': status, 'type': type(val).__name__}


# ----------------------------------------------------------------------------------------------------
# anchors: documented problems and the specific class each must keep

ANCHOR_GRADERS = {
    'F': {'$g': 'FormulaGrader', 'kw': {'answers': 'zqx+1', 'variables': ['zqx', 'zqy']}},
    'Fw': {'$g': 'FormulaGrader', 'kw': {'answers': 'sin(zqx)', 'variables': ['zqx'], 'blacklist': ['cos'],
                                        'forbidden_strings': ['+0'], 'required_functions': ['sin']}},
    'N': {'$g': 'NumericalGrader', 'kw': {'answers': '3'}},
    'Fk': {'$g': 'FormulaGrader', 'kw': {'answers': 'zqx+1', 'variables': ['zqx'], 'metric_suffixes': True}},
    'M': {'$g': 'MatrixGrader', 'kw': {'answers': '[1,2]', 'variables': ['zqx'], 'max_array_dim': 2}},
    'SL': {'$g': 'SingleListGrader', 'kw': {'answers': ['zqa', 'zqb'], 'subgrader': {'$g': 'StringGrader', 'kw': {}}}},
    'SLl': {'$g': 'SingleListGrader', 'kw': {'answers': ['zqa', 'zqb'], 'length_error': True,
                                            'subgrader': {'$g': 'StringGrader', 'kw': {}}}},
    'I': {'$g': 'IntervalGrader', 'kw': {'answers': '[1,2)'}},
    'S': {'$g': 'StringGrader', 'kw': {'answers': 'zqa', 'validation_pattern': '[a-z]+'}},
    'Sa': {'$g': 'StringGrader', 'kw': {'accept_any': True, 'min_length': 5}},
    'L': {'$g': 'ListGrader', 'kw': {'answers': ['zqx', 'zqy'],
                                     'subgraders': {'$g': 'FormulaGrader', 'kw': {'variables': ['zqx', 'zqy']}}}},
    'Lsib': {'$g': 'ListGrader', 'kw': {'answers': ['sibling_2+sibling_3', 'zqx', 'zqx+1'], 'ordered': True,
                                        'subgraders': {'$g': 'FormulaGrader', 'kw': {'variables': ['zqx']}}}},
    'Sum': {'$g': 'SumGrader', 'kw': {'answers': {'lower': '1', 'upper': '5', 'summand': 'n',
                                                  'summation_variable': 'n'}}},
}
ANCHORS = [
    ('F', 'zqx+', 'UnableToParse'), ('F', '(zqx', 'UnbalancedBrackets'), ('F', 'zqx)', 'UnbalancedBrackets'),
    ('F', 'zqz', 'UndefinedVariable'), ('F', 'zqz(1)', 'UndefinedFunction'), ('F', '1/0', 'CalcZeroDivisionError'),
    ('F', '1e308*10', 'CalcOverflowError'), ('F', 'sin(1,2)', 'ArgumentError'), ('F', '[1,2]', 'UnableToParse'),
    ('F', 'ZQX', 'UndefinedVariable'), ('F', 'Sin(zqx)', 'UndefinedFunction'), ('F', '2^2^2^2^2^2', 'CalcOverflowError'),
    ('M', '[1,2]+[1,2,3]', 'MathArrayShapeError'), ('M', '[1,2,3]', 'InputTypeError'),
    ('M', '[[1,2],[3,4]]^0.5', 'MathArrayError'), ('M', 'sin([1,2])', 'ArgumentShapeError'),
    ('M', '[1,[2,3]]', 'UnableToParse'), ('M', '[[1,2],[2,4]]^-1', 'MathArrayError'), ('M', '[[[1]]]', 'UnableToParse'),
    ('M', 'det([1,2])', 'ArgumentShapeError'), ('M', '5', 'InputTypeError'),
    ('SL', 'zqa,,zqb', 'MissingInput'), ('SLl', 'zqa', 'MissingInput'), ('I', '{1,2)', 'InvalidInput'),
    ('I', '[1,2,3)', 'MissingInput'), ('I', '[1,2}', 'InvalidInput'), ('S', 'ABC', 'InvalidInput'),
    ('Sa', 'ab', 'InvalidInput'), ('L', ['zqx'], 'ConfigError'), ('L', ['zqx+', 'zqy'], 'UnableToParse'),
    ('Sum', ['1', '5', '', 'n'], 'MissingInput'), ('Sum', ['1.5', '5', 'n', 'n'], 'SummationError'),
    ('Sum', ['1', '5', 'n', 'i'], 'InvalidInput'), ('Sum', ['1', '5', 'n', '2n'], 'InvalidInput'),
    ('Sum', ['1', '5', 'n'], 'ConfigError'), ('Sum', ['i', '5', 'n', 'n'], 'SummationError'),
    ('Sum', ['infty', 'infty', 'n', 'n'], 'SummationError'), ('N', 'zqx', 'UndefinedVariable'),
    ('N', '3+', 'UnableToParse'), ('Fw', 'cos(zqx)+sin(zqx)-cos(zqx)', 'InvalidInput'), ('Fw', 'sin(zqx)+0', 'InvalidInput'),
    # a sibling box whose formula can never be resolved while another one can: must end with the dependency error
    # (a seeded change made the resolution loop spin forever once any dependent had resolved)
    ('Lsib', ['2*zqx', 'zqx', 'zqq+1'], 'ConfigError'), ('Lsib', ['2*zqx', 'sibling_3', 'sibling_2'], 'ConfigError'),
    # array operators with anticipated misuse (added after a seeded change turned matrix^complex into a TypeError,
    # i.e. the generic error, which the debug-twin differential cannot tell from an unanticipated failure)
    ('M', '[[1,2],[3,4]]^i', 'MathArrayError'), ('M', '[[1,2],[3,4]]^(2*j)', 'MathArrayError'),
    ('M', '[[1,2],[3,4]]^sqrt(-4)', 'MathArrayError'), ('M', '[[1,2],[3,4]]^(1+i)', 'MathArrayError'),
    ('M', '[1,2]^2', 'MathArrayShapeError'), ('M', '[[1,2,3],[4,5,6]]^2', 'MathArrayShapeError'),
    ('M', '[[1,2],[3,4]]^[1,2]', 'MathArrayShapeError'), ('M', '[[1,2],[3,4]]/[1,2]', 'MathArrayShapeError'),
    ('M', '2^[1,2]', 'MathArrayShapeError'), ('M', '[1,2]*[1,2]*[1,2]', 'CalcError'),
    ('M', '[[1,2],[3,4]]+1', 'MathArrayShapeError'),
    # ONE array operation that raises two floating-point conditions at once (a pole together with 0/0, overflow together
    # with underflow): still the anticipated division-by-zero / overflow problem (a seeded change keyed the error on
    # numpy's combined status flags and fell through to the generic error)
    ('M', '[0,1]/0', 'CalcZeroDivisionError'), ('M', '[0,3]/(1-1)', 'CalcZeroDivisionError'),
    ('M', '[0,1]/(zqx-zqx)', 'CalcZeroDivisionError'), ('M', '[[0,1],[1,0]]/0', 'CalcZeroDivisionError'),
    ('M', '[1,2]/0', 'CalcZeroDivisionError'), ('M', '(1e300+1e-300*i)*[1e300,1e-300]', 'CalcOverflowError'),
    ('M', '[1e300,1]*1e300', 'CalcOverflowError'),
]

# number literals whose exponent is far beyond the float range (up to exponents no number library accepts), bare and
# with a % / metric suffix, alone and inside a sum: the anticipated overflow problem (a seeded change rescaled suffixed
# literals with the decimal module, whose own Overflow / InvalidOperation errors fell through to the generic error)
for _exp in ['309', '400', '99999', '999999', '1000002', '1234567', '99999999', '9999999999999999999',
             '99999999999999999999999999']:
    for _mant in ['1', '3', '2.5', '0.001']:
        if (len(_exp) + len(_mant)) % 2 or (_mant == '0.001' and _exp == '309'):      # 0.001e309 = 1e306 is a finite number
            continue
        for _sfx, _gk in [('', 'F'), ('%', 'F'), ('%', 'N'), ('k', 'Fk'), ('m', 'Fk'), ('T', 'Fk'), ('p', 'Fk'), ('%', 'Fk')]:
            ANCHORS.append((_gk, '%se%s%s' % (_mant, _exp, _sfx), 'CalcOverflowError'))
            if _mant == '1':
                ANCHORS.append((_gk, '1+%se+%s%s' % (_mant, _exp, _sfx), 'CalcOverflowError'))


FAMILY_KINDS = ['Formula', 'Numerical', 'Matrix']
_family_trees = exprgen.trees(var_names=['zqx', 'zqy'], func_names=['sin', 'cos', 'exp', 'sqrt', 'abs'], max_leaves=4)


@st.composite
def strat_families(draw, tier):
    """A formula grader and a syntactically broken formula of arbitrary length whose problem class is known."""
    case = draw(gspec.grader_cases(kinds=FAMILY_KINDS))
    terms = draw(st.lists(_family_trees, min_size=1, max_size=draw(st.sampled_from([1, 3, 8, 20]))))
    body = draw(st.sampled_from(['+', '*', '-', ' + '])).join('(%s)' % exprgen.render(t) for t in terms)
    fam = draw(st.sampled_from(['trailing-operator', 'leading-operator', 'unclosed', 'unopened', 'double-operator']))
    if fam == 'trailing-operator':
        inp, cls = body + draw(st.sampled_from(['+', '-', '*', '/', '^'])), 'UnableToParse'
    elif fam == 'leading-operator':
        inp, cls = draw(st.sampled_from(['*', '/', '^'])) + body, 'UnableToParse'
    elif fam == 'double-operator':
        inp, cls = body + draw(st.sampled_from(['*/', '/*', '^*', '+*'])) + body, 'UnableToParse'
    elif fam == 'unclosed':
        inp, cls = draw(st.sampled_from(['(', '[', '((', 'sin('])) + body, 'UnbalancedBrackets'
    else:
        inp, cls = body + draw(st.sampled_from([')', ']', '))'])), 'UnbalancedBrackets'
    attempt = draw(gspec.attempts) if 'attempt_based_credit' in case['g']['kw'] else None
    return {'kind': case['kind'], 'g': case['g'], 'input': inp, 'cls': cls, 'family': fam, 'attempt': attempt,
            'seed': draw(st.integers(0, 10 ** 6))}


def judge_family(spec, rec):
    g, inp, kind = spec['g'], spec['input'], spec['kind']

    def make():
        return gspec.build(g, debug=False), gspec.build(g, debug=True)
    try:
        make()
    except (MITxError, SchemaError):
        raise Discard('invalid-config/%s' % kind)
    kwargs = {} if spec['attempt'] is None else {'attempt': spec['attempt']}
    status, e = differential(rec, make, inp, kwargs, spec['seed'], kind, False)
    if status != 'raised':
        raise Violation('family/graded', '%s graded the malformed formula %r' % (g['$g'], inp))
    if type(e).__name__ != spec['cls']:
        raise Violation('anchor/class-not-kept/' + spec['cls'], '%s on %r (%s): expected the specific error %s, got %s: %s'
                        % (g['$g'], inp, spec['family'], spec['cls'], type(e).__name__, str(e)[:200]))
    rec.cls('family/' + spec['family'])
    if len(inp) > 40:
        rec.cls('family/longer-than-40')
    return {'raised': type(e).__name__}


def items_anchors(tier):
    for key, inp, cls in ANCHORS:
        yield {'grader': key, 'input': inp, 'cls': cls}


def judge_anchor(spec, rec):
    g = ANCHOR_GRADERS[spec['grader']]
    inp = spec['input']
    status, e = differential(rec, lambda: (gspec.build(g, debug=False), gspec.build(g, debug=True)), inp, {}, 0,
                             'anchor', g['$g'] == 'ListGrader')
    if status != 'raised':
        raise Violation('anchor/graded', '%s graded %r instead of reporting %s' % (g['$g'], inp, spec['cls']))
    if type(e).__name__ != spec['cls'] or not isinstance(e, MITxError):
        raise Violation('anchor/class-not-kept/' + spec['cls'], '%s on %r: expected the specific error %s, got %s: %s' % (
            g['$g'], inp, spec['cls'], type(e).__name__, str(e)[:200]))
    rec.cls('anchor/' + spec['cls'])
    return {'raised': type(e).__name__}



# ----------------------------------------------------------------------------------------------------
# anticipated problem, generated: a name the grader does not know (judged against the configuration, not the twin)

UN_VARS = ['x', 'y2', 'x_1', 'a_b', 'T_{1}', 'T_{-2}^{ab}', 'U^{3}', "x'", "w''", 'm_{e}', 'Q_{ab}^{cd}', 'zq', 'Rho', 'kB',
           'v_{0}', 'L_{12}', 'phi_{n}^{m}', 'B_x']
UN_FUNCS = ['f', 'g_{1}', "h'", 'F_{ab}', 'Gq', 'sq_{2}^{x}', 'myfun']
UN_UNRELATED = ['unk', 'Zed', 'q_{9}', "nn'", 'W_{a}^{b}']
UN_SUFFIX_BAD = ['K', 'g', 't', 'N', 'P', 'U', 'q', 'd']      # case variants of metric suffixes and unknown letters
DEFAULT_NAMES = {'e', 'i', 'j', 'pi', 'infty'}


def _case_variant(draw, name):
    letters = [k for k, ch in enumerate(name) if ch.isalpha()]
    ks = draw(st.lists(st.sampled_from(letters), min_size=1, max_size=len(letters), unique=True))
    return ''.join(ch.swapcase() if k in ks else ch for k, ch in enumerate(name))


@st.composite
def strat_undefined(draw, tier):
    kind = draw(st.sampled_from(['Formula', 'Formula', 'Matrix', 'Numerical']))
    nv = draw(st.integers(1, 4))
    variables = draw(st.lists(st.sampled_from(UN_VARS), min_size=nv, max_size=nv, unique=True)) if kind != 'Numerical' else []
    funcs = draw(st.lists(st.sampled_from(UN_FUNCS), min_size=0, max_size=2, unique=True))
    numbered = draw(st.sampled_from([[], [], ['a'], ['a', 'cx']])) if kind != 'Numerical' else []
    metric = draw(st.booleans())
    kw = {'variables': variables, 'user_functions': {f: {'$fn': 'sq'} for f in funcs}, 'numbered_vars': numbered,
          'metric_suffixes': metric}
    if kind == 'Numerical':
        kw = {'user_functions': kw['user_functions'], 'metric_suffixes': metric}
    if kind == 'Matrix':
        kw['max_array_dim'] = 2
    known = list(variables) + ['%s_{%d}' % (h, n) for h in numbered for n in (0, 1, 12)]
    terms = [draw(st.sampled_from(known))] if known and draw(st.booleans()) else []
    if funcs and draw(st.booleans()):
        terms.append('%s(2)' % draw(st.sampled_from(funcs)))
    terms.append(draw(st.sampled_from(['1', '2.5', '3k' if metric else '3', 'sin(1)'])))
    answer = '+'.join(terms)
    kw['answers'] = answer
    # the offender
    what = draw(st.sampled_from(['var-case', 'var-prime', 'var-index', 'var-unrelated', 'func-case', 'func-unrelated',
                                 'func-is-variable', 'numbered-case', 'numbered-other-head', 'suffix', 'default-func-case',
                                 'default-const-case']))
    cls = 'UndefinedVariable'
    off = None
    if what == 'var-case' and variables:
        off = _case_variant(draw, draw(st.sampled_from(variables)))
    elif what == 'var-prime' and variables:
        off = draw(st.sampled_from(variables)) + "'"
    elif what == 'var-index' and variables:
        v = draw(st.sampled_from(variables))
        off = v.replace('1', '7').replace('{e}', '{p}').replace('{ab}', '{ba}').replace('{0}', '{00}') if any(
            t in v for t in ('1', '{e}', '{ab}', '{0}')) else (v + '_{2}' if v.isalnum() else v + "'")
    elif what == 'var-unrelated':
        off = draw(st.sampled_from(UN_UNRELATED))
    elif what == 'numbered-case' and numbered:
        off = _case_variant(draw, '%s_{%d}' % (draw(st.sampled_from(numbered)), draw(st.sampled_from([0, 1, 12, 3]))))
    elif what == 'numbered-other-head' and numbered:
        off = 'b_{%d}' % draw(st.sampled_from([0, 1, 12]))
    elif what == 'default-const-case':
        off = draw(st.sampled_from(['PI', 'Pi', 'INFTY']))
    elif what == 'func-case' and funcs:
        off, cls = _case_variant(draw, draw(st.sampled_from(funcs))) + '(2)', 'UndefinedFunction'
    elif what == 'func-unrelated':
        off, cls = draw(st.sampled_from(['unk(2)', "Gq'(1)", 'q_{9}(3)', 'ff(1,2)'])), 'UndefinedFunction'
    elif what == 'func-is-variable' and variables:
        off, cls = draw(st.sampled_from(variables)) + '(2)', 'UndefinedFunction'
    elif what == 'default-func-case':
        off, cls = draw(st.sampled_from(['Sin(1)', 'COS(1)', 'Sqrt(4)', 'LN(2)', 'Abs(1)'])), 'UndefinedFunction'
    elif what == 'suffix':
        if metric:
            off = '2' + draw(st.sampled_from(UN_SUFFIX_BAD + (variables[:1] if variables and len(variables[0]) == 1 else [])))
        else:
            off = '2' + draw(st.sampled_from(['k', 'M', 'u', 'K', 'q']))
        cls = 'UndefinedFunction'
    if off is None:
        what, off = 'var-unrelated', draw(st.sampled_from(UN_UNRELATED))
    name = off.split('(')[0] if '(' in off else (off[1:] if what == 'suffix' else off)
    scope_v = set(variables) | DEFAULT_NAMES | {'%s_{%d}' % (h, n) for h in numbered for n in range(-20, 100)}
    if '(' not in off and what != 'suffix' and name in scope_v:
        what, off, name, cls = 'var-unrelated', 'unk', 'unk', 'UndefinedVariable'
    if '(' in off and name in funcs:
        what, off, name, cls = 'func-unrelated', 'unk(2)', 'unk', 'UndefinedFunction'
    place = draw(st.sampled_from(['{a}+{o}', '{o}', '{a}+0*{o}', '({a})*{o}^0', 'sin({o})+{a}', '{a}-{o}+{o}', '2^({o})+{a}'] +
                                 (['[{a},{o}]'] if kind == 'Matrix' else [])))
    inp = place.format(a=answer, o=off)
    return {'kind': kind, 'g': {'$g': kind + 'Grader', 'kw': kw}, 'input': inp, 'cls': cls, 'what': what, 'name': name,
            'seed': draw(st.integers(0, 10 ** 6))}


def judge_undefined(spec, rec):
    g, inp, kind = spec['g'], spec['input'], spec['kind']

    def make():
        return gspec.build(g, debug=False), gspec.build(g, debug=True)
    try:
        g0, _ = make()
    except (MITxError, SchemaError) as e:
        raise Violation('undefined/valid-config-refused', '%s: %s' % (type(e).__name__, str(e)[:200]))
    # control: the author's own answer is accepted by this grader (the configuration is sound)
    set_seed(spec['seed'])
    st0, val = call(g0, None, g['kw']['answers'])
    if st0 != 'ok' or val.get('ok') is not True:
        raise Discard('undefined/answer-not-accepted')
    status, e = differential(rec, make, inp, {}, spec['seed'], kind, False)
    if status != 'raised':
        raise Violation('undefined/graded', '%s graded %r although %r is not defined' % (g['$g'], inp, spec['name']))
    if type(e).__name__ != spec['cls']:
        raise Violation('anchor/class-not-kept/' + spec['cls'], '%s(variables=%r, functions=%r, numbered=%r) on %r (%s): '
                        'expected the specific error %s naming %r, got %s: %s' % (
                            g['$g'], g['kw'].get('variables'), sorted(g['kw']['user_functions']),
                            g['kw'].get('numbered_vars'), inp, spec['what'], spec['cls'], spec['name'],
                            type(e).__name__, str(e)[:200]))
    if ("'%s'" % spec['name']) not in str(e) and spec['name'] not in str(e):
        raise Violation('undefined/message-does-not-name-it', '%s on %r: message %r does not mention %r' % (
            g['$g'], inp, str(e)[:200], spec['name']))
    rec.cls('undefined/' + spec['what'])
    if '{' in spec['name']:
        rec.cls('undefined/name-with-braces')
    if 'did you mean' in str(e):
        rec.cls('undefined/did-you-mean')
        if '{' in str(e).split('did you mean')[1]:
            rec.cls('undefined/did-you-mean-with-braces')
    return {'raised': type(e).__name__, 'msg': str(e)[:120]}



# ----------------------------------------------------------------------------------------------------
# termination of calls whose cost explodes when numbers are not floats (exact integer power towers cannot be interrupted
# from Python: each case runs in a forked child that the kernel kills after 20 s)

from vlib.isolate import run_in_fork, ChildFailed  # noqa: E402

TOWERS = [('Sum', ['9', '12', 'n^n^n', 'n']), ('Sum', ['1', '200', 'n^n', 'n']), ('Sum', ['1', '12', 'n^n^n', 'n']),
          ('Sum', ['1', '30', '2^n^n', 'n']), ('Sum', ['3', '5', 'n^n^n^n', 'n']), ('Sum', ['9', '9', '(n+1)^(n+2)^(n+3)', 'n']),
          ('Sum', ['1', '40', 'n^(n^2)^n', 'n']), ('F', '9^9^9^9'), ('F', '(zqx+8)^(zqx+8)^(zqx+8)'), ('N', '9^9^9'),
          ('N', '10^10^10'), ('M', '[9,9]^9^9^9'), ('F', 'zqx^1000^1000'), ('N', '7^7^7^7^7'), ('F', '2^2^2^2^2^2^2'),
          # summation limits beyond 2^53, where n + 1 == n in floating point: a few terms, not an endless loop
          ('Sum', ['2^53', '2^53+2', '1', 'n']), ('Sum', ['9007199254740992', '9007199254740994', 'n*0+1', 'n']),
          ('Sum', ['1e16', '1e16', '1', 'n']), ('Sum', ['2^54', '2^54+4', '1/n', 'n']), ('Sum', ['-2^53-2', '-2^53', '1', 'n']),
          ('Sum', ['1e300', '1e300', '1', 'n']), ('Sum', ['1e15', '1e15+3', 'n-1e15', 'n'])]


def items_towers(tier):
    for key, inp in TOWERS:
        yield {'grader': key, 'input': inp}


def judge_tower(spec, rec):
    g = ANCHOR_GRADERS[spec['grader']]
    inp = spec['input']

    def child():
        grader = gspec.build(g, debug=False)
        set_seed(0)
        try:
            r = grader(None, inp)
            return ('ret', r.get('ok'))
        except Exception as e:  # noqa: BLE001
            return ('exc', type(e).__name__, str(e)[:200], isinstance(e, MITxError))
    t0 = time.perf_counter()
    try:
        out = run_in_fork(child, timeout=20)
    except ChildFailed as e:
        raise Violation('watchdog', '%s on %r did not finish within 20 s (child: %s)' % (g['$g'], inp, str(e)[:120]))
    rec.calls()
    rec.maximum('slowest_tower_s', round(time.perf_counter() - t0, 3))
    rec.cls('tower/judged')
    rec.nontrivial()
    if out[0] == 'exc' and not out[3]:
        raise Violation('foreign-exception/%s/tower' % out[1], '%s escaped with debug off: %s' % (out[1], out[2]))
    if out[0] == 'exc' and out[1] == 'StudentFacingError' and 'Could not check input' in out[2]:
        raise Violation('anchor/class-not-kept/CalcOverflowError', '%s on %r: a numerical overflow is an anticipated problem '
                        'but surfaced as the generic error %r' % (g['$g'], inp, out[2]))
    return {'outcome': list(out[:2])}


# ----------------------------------------------------------------------------------------------------
# non-text / wrongly nested input objects


def decode_obj(o):
    if isinstance(o, dict) and 'obj' in o:
        k = o['obj']
        if k == 'None':
            return None
        if k in ('int', 'float', 'bool', 'str'):
            return o['v']
        if k == 'bytes':
            return o['v'].encode('utf-8')
        if k == 'dict':
            return {a: decode_obj(b) for a, b in o['v']}
        if k == 'tuple':
            return tuple(decode_obj(x) for x in o['v'])
        if k == 'list':
            return [decode_obj(x) for x in o['v']]
        if k == 'list-of-int':
            return [1, 2, 3][:o.get('n', 2)]
        if k == 'set':
            return set(o['v'])
        if k == 'complex':
            return complex(o['v'][0], o['v'][1])
        raise ValueError(k)
    return o


scalars = st.one_of(st.just({'obj': 'None'}), st.integers(-3, 1000).map(lambda v: {'obj': 'int', 'v': v}),
                    st.sampled_from([0.0, 2.5, -1e9]).map(lambda v: {'obj': 'float', 'v': v}),
                    st.booleans().map(lambda v: {'obj': 'bool', 'v': v}),
                    st.sampled_from(['ab', 'zqa', '', '1+1']).map(lambda v: {'obj': 'bytes', 'v': v}),
                    st.just({'obj': 'complex', 'v': [1, 2]}))


@st.composite
def strat_nontext(draw, tier):
    case = draw(gspec.grader_cases())
    kind = case['kind']
    texts = [draw(s.good) for s in case['slots']]
    k = draw(st.sampled_from([8, 0, 1, 3, 4, 5, 6, 7, 8, 2, 8]))
    if k < 3:
        obj = draw(scalars)
        label = obj['obj']
    elif k == 3:
        obj = {'obj': 'tuple', 'v': texts}
        label = 'tuple-of-text'
    elif k == 4:
        obj = {'obj': 'dict', 'v': [[str(i), t] for i, t in enumerate(texts)]}
        label = 'dict'
    elif k == 5:
        n = max(1, len(texts))
        obj = {'obj': 'list', 'v': [draw(scalars) for _ in range(n)]} if draw(st.booleans()) else {'obj': 'list-of-int', 'n': min(n, 3)}
        label = 'list-of-non-text'
    elif k == 6:
        v = list(texts)
        v[draw(st.integers(0, len(v) - 1))] = draw(scalars)
        obj = {'obj': 'list', 'v': v}
        label = 'list-with-one-non-text'
    elif k == 7:
        obj = {'obj': 'list', 'v': [{'obj': 'list', 'v': texts}]} if draw(st.booleans()) else \
            {'obj': 'list', 'v': [{'obj': 'list', 'v': [t]} for t in texts]}
        label = 'nested-list'
    elif kind == 'List':
        # a text where a list is required (one character per expected box, so that only the type is wrong)
        obj = {'obj': 'str', 'v': draw(st.sampled_from(['x' * len(texts), 'x' * len(texts), texts[0], ', '.join(texts), '']))}
        label = 'text-where-list-required'
    elif kind == 'Sum' and len(texts) >= 2 and draw(st.booleans()):
        # a single text where several boxes are required: as many CHARACTERS as there are boxes, each a plausible entry
        # ('15nn' for lower/upper/summand/variable), so that only the type is wrong
        obj = {'obj': 'str', 'v': draw(st.sampled_from(['15nn'[:len(texts)].ljust(len(texts), 'n'), '1' * len(texts),
                                                        'n' * len(texts), ''.join((t or 'n')[0] for t in texts)]))}
        label = 'text-where-list-required'
    elif kind == 'Sum':
        obj = {'obj': 'set', 'v': texts[:1]}
        label = 'set'
    else:
        obj = {'obj': 'list', 'v': [texts[0]] * draw(st.sampled_from([1, 2]))} if draw(st.integers(0, 3)) else \
            {'obj': 'list', 'v': []}
        label = 'list-where-text-required'
    attempt = None
    if 'attempt_based_credit' in case['g']['kw']:
        attempt = draw(gspec.attempts)
    return {'kind': kind, 'g': case['g'], 'obj': obj, 'label': label, 'attempt': attempt,
            'seed': draw(st.integers(0, 10 ** 6))}


def judge_nontext(spec, rec):
    g, kind = spec['g'], spec['kind']
    try:
        g0 = gspec.build(g, debug=False)
    except (MITxError, SchemaError):
        raise Discard('invalid-config/%s' % kind)
    inp = decode_obj(spec['obj'])
    kwargs = {} if spec['attempt'] is None else {'attempt': spec['attempt']}
    status, val = timed_call(rec, g0, inp, kwargs, spec['seed'])
    if status == 'ok':
        raise Violation('nontext/graded/' + spec['label'], '%s graded %r instead of refusing it: %r' % (
            g['$g'], inp, val))
    if not isinstance(val, ConfigError):
        raise Violation('nontext/not-a-configuration-error/' + spec['label'], '%s refused %r with %s: %s' % (
            g['$g'], inp, type(val).__name__, str(val)[:200]))
    rec.cls('nontext/refused')
    rec.cls('nontext/' + kind)
    rec.cls('nontext-kind/' + spec['label'])
    rec.nontrivial()
    return {'raised': 'ConfigError'}


# non-text input while the answer is inferred from the edX `expect` argument (item graders without configured
# answers): the refusal must still be a ConfigError (a seeded change let the debug-log code, which runs before input
# validation on this path, raise TypeError)
INFER = {
    'String': (lambda: __import__('mitxgraders').StringGrader(), 'cat'),
    'Formula': (lambda: __import__('mitxgraders').FormulaGrader(variables=['x']), 'x+1'),
    'Numerical': (lambda: __import__('mitxgraders').NumericalGrader(), '2'),
    'Matrix': (lambda: __import__('mitxgraders').MatrixGrader(), '[1,2]'),
    'SingleList': (lambda: __import__('mitxgraders').SingleListGrader(subgrader=__import__('mitxgraders').StringGrader()), 'a,b'),
    'Interval': (lambda: __import__('mitxgraders').IntervalGrader(), '[1,2)'),
}
INFER_OBJS = [{'obj': 'None'}, {'obj': 'int', 'v': 5}, {'obj': 'float', 'v': 3.5}, {'obj': 'bool', 'v': True},
              {'obj': 'bytes', 'v': 'ab'}, {'obj': 'complex', 'v': [1, 2]}, {'obj': 'list', 'v': ['2', {'obj': 'None'}]},
              {'obj': 'list', 'v': ['a', 'b']}, {'obj': 'list-of-int'}, {'obj': 'tuple', 'v': ['a']},
              {'obj': 'dict', 'v': [['a', 'b']]}, {'obj': 'set', 'v': ['a']}]


def items_infer(tier):
    for kind in sorted(INFER):
        for n, o in enumerate(INFER_OBJS):
            for dbg in (False,):
                yield {'kind': kind, 'obj': o, 'n': n}


def judge_infer(spec, rec):
    make, expect = INFER[spec['kind']]
    g = make()
    inp = decode_obj(spec['obj'])
    set_seed(0)
    with watchdog(30):
        status, val = call(g, expect, inp)
    rec.calls()
    if status == 'ok':
        raise Violation('nontext/graded/inferred-expect', '%s graded %r instead of refusing it: %r' % (
            spec['kind'], inp, val))
    if not isinstance(val, ConfigError):
        raise Violation('nontext/not-a-configuration-error/inferred-expect', '%sGrader()(%r, %r) raised %s: %s' % (
            spec['kind'], expect, inp, type(val).__name__, str(val)[:200]))
    rec.cls('nontext/inferred-expect')
    rec.nontrivial()
    return {'raised': 'ConfigError'}


PARTS = [
    Part('anchors', 'enum', judge_anchor, items=items_anchors, exhaustive=True, shards=2),
    Part('nontext-infer', 'enum', judge_infer, items=items_infer, exhaustive=True, shards=2),
    Part('towers', 'enum', judge_tower, items=items_towers, exhaustive=True, shards=4),
    Part('hostile', 'hyp', judge_hostile, strategy=lambda tier: strat_hostile(tier),
         budget={'quick': 13000, 'thorough': 300000}),
    Part('families', 'hyp', judge_family, strategy=lambda tier: strat_families(tier),
         budget={'quick': 1200, 'thorough': 20000}),
    Part('nontext', 'hyp', judge_nontext, strategy=lambda tier: strat_nontext(tier),
         budget={'quick': 1500, 'thorough': 30000}),
    Part('undefined-names', 'hyp', judge_undefined, strategy=lambda tier: strat_undefined(tier),
         budget={'quick': 1600, 'thorough': 40000}),
    # coverage-guided (atheris/libFuzzer over the same structured strategy and oracle; thorough tier only)
    Part('hostile-fuzz', 'fuzz', judge_hostile, strategy=lambda tier: strat_hostile(tier),
         budget={'quick': 0, 'thorough': 320000}),
]
